#!/bin/bash
# Offline setup: builds vbuild and warms the Go build cache for the overlaid repo.
set -u
cd "$(dirname "$0")"
export GOFLAGS=-mod=mod GOPROXY=off GOSUMDB=off GOTOOLCHAIN=local
mkdir -p .build/bin evidence replays
cp /repo/go.sum mc/go.sum
(cd mc && go build -o ../.build/bin/vbuild ./cmd/vbuild) || exit 1
# warm: build every property binary once (no run)
.build/bin/vbuild -repo /repo -verif "$PWD" -out "$PWD/.build/warm" -vclock "blockchain,core/ceremony,core/appstate,core/mempool,core/flip,core/upgrade,core/state,common/pushpull,consensus,pengings,protocol" -gostmt "blockchain,core/ceremony,core/appstate,core/mempool,core/flip,core/upgrade,core/state,common/pushpull,consensus,pengings,protocol" || exit 1
(cd maptool && go build -o ../.build/bin/maptool .) || exit 1
.build/bin/maptool -repo /repo -overlay "$PWD/.build/warm/overlay.json" -out "$PWD/.build/warm" -pkgs "blockchain,core/state,core/validators,core/ceremony,core/appstate,core/mempool,vm,vm/env,vm/wasm,vm/embedded,blockchain/types" || exit 1
(W="$PWD/.build/warm/overlay.json"; cd mc && go build -overlay "$W" -o /dev/null ./props/... ) || exit 1
echo setup ok
