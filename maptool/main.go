// maptool is the type-aware "maporder" pass of the verification overlay. It loads the
// listed repository packages with full type information (through the overlay produced by
// vbuild, so it sees exactly the sources the check will compile), finds every `range`
// over a map type and every golang-set iteration (ToSlice / Iter / Each), and rewrites
// them so that the iteration order becomes an explicit choice point
// (verifhook.Order*). Without an attached explorer the order is canonical (sorted), which
// also makes every run deterministic.
//
// usage: maptool -repo /repo -overlay <dir>/overlay.json -out <dir> -pkgs blockchain,core/state,...
package main

import (
	"encoding/json"
	"flag"
	"fmt"
	"go/ast"
	"go/token"
	"go/types"
	"os"
	"path/filepath"
	"sort"
	"strings"

	"golang.org/x/tools/go/packages"
)

const modPath = "github.com/idena-network/idena-go"

type overlay struct{ Replace map[string]string }

type edit struct {
	off, del int
	ins      string
}

type site struct {
	ID   string `json:"id"`
	Kind string `json:"kind"`
	Pos  string `json:"pos"`
}

func die(format string, a ...interface{}) {
	fmt.Fprintf(os.Stderr, "HARNESS-BUILD-FAILED maptool: "+format+"\n", a...)
	os.Exit(2)
}

func main() {
	repo := flag.String("repo", "/repo", "")
	ovPath := flag.String("overlay", "", "")
	out := flag.String("out", "", "")
	pkgs := flag.String("pkgs", "", "")
	flag.Parse()
	var ov overlay
	b, err := os.ReadFile(*ovPath)
	if err != nil {
		die("%v", err)
	}
	if err := json.Unmarshal(b, &ov); err != nil {
		die("%v", err)
	}
	var patterns []string
	target := map[string]bool{}
	for _, p := range strings.Split(*pkgs, ",") {
		p = strings.TrimSpace(p)
		if p == "" {
			continue
		}
		patterns = append(patterns, modPath+"/"+p)
		target[modPath+"/"+p] = true
	}
	cfg := &packages.Config{
		Mode:       packages.NeedName | packages.NeedFiles | packages.NeedSyntax | packages.NeedTypes | packages.NeedTypesInfo | packages.NeedImports | packages.NeedDeps | packages.NeedCompiledGoFiles,
		Dir:        *repo,
		BuildFlags: []string{"-overlay", *ovPath, "-mod=mod"},
		Env:        append(os.Environ(), "GOFLAGS=-mod=mod", "GOPROXY=off", "GOSUMDB=off", "GOTOOLCHAIN=local"),
	}
	cfg.Overlay = map[string][]byte{}
	for logical, gen := range ov.Replace {
		c, err := os.ReadFile(gen)
		if err != nil {
			die("%v", err)
		}
		cfg.Overlay[logical] = c
	}
	loaded, err := packages.Load(cfg, patterns...)
	if err != nil {
		die("load: %v", err)
	}
	var sites []site
	var skipped []site
	counter := 0
	for _, p := range loaded {
		if len(p.Errors) > 0 {
			die("package %s: %v", p.PkgPath, p.Errors[0])
		}
		if !target[p.PkgPath] {
			continue
		}
		for i, f := range p.Syntax {
			fname := p.CompiledGoFiles[i]
			if strings.HasSuffix(fname, "_test.go") {
				continue
			}
			// the overlay maps the logical /repo path to the generated file; recover the logical path
			logical := fname
			for k, v := range ov.Replace {
				if v == fname {
					logical = k
				}
			}
			if !strings.HasPrefix(logical, *repo+"/") || strings.Contains(logical, "zz_verif_") {
				continue
			}
			rel, _ := filepath.Rel(*repo, logical)
			src, ok := cfg.Overlay[logical]
			if !ok {
				var err error
				if src, err = os.ReadFile(fname); err != nil {
					die("%v", err)
				}
			}
			var edits []edit
			aliases := map[string]string{} // pkg path -> alias
			qual := func(other *types.Package) string {
				if other == p.Types {
					return ""
				}
				if a, ok := aliases[other.Path()]; ok {
					return a
				}
				a := fmt.Sprintf("__vp%d", len(aliases))
				aliases[other.Path()] = a
				return a
			}
			off := func(pos token.Pos) int { return p.Fset.Position(pos).Offset }
			var curFunc string
			perFunc := map[string]int{}
			newSite := func(kind string, pos token.Pos) string {
				perFunc[curFunc+kind]++
				id := fmt.Sprintf("%s:%s:%s#%d", rel, curFunc, kind, perFunc[curFunc+kind])
				sites = append(sites, site{ID: id, Kind: kind, Pos: p.Fset.Position(pos).String()})
				return id
			}
			isSet := func(e ast.Expr) bool {
				t := p.TypesInfo.TypeOf(e)
				if t == nil {
					return false
				}
				if n, ok := t.(*types.Named); ok {
					o := n.Obj()
					return o.Pkg() != nil && o.Pkg().Path() == "github.com/deckarep/golang-set" && o.Name() == "Set"
				}
				return false
			}
			labelOf := map[*ast.RangeStmt]*ast.LabeledStmt{}
			ast.Inspect(f, func(n ast.Node) bool {
				if l, ok := n.(*ast.LabeledStmt); ok {
					if r, ok := l.Stmt.(*ast.RangeStmt); ok {
						labelOf[r] = l
					}
				}
				return true
			})
			visit := func(n ast.Node) bool {
				switch v := n.(type) {
				case *ast.CallExpr:
					sel, ok := v.Fun.(*ast.SelectorExpr)
					if !ok || !isSet(sel.X) {
						return true
					}
					switch sel.Sel.Name {
					case "ToSlice":
						if len(v.Args) == 0 {
							id := newSite("set.ToSlice", v.Pos())
							edits = append(edits, edit{off(v.Pos()), 0, fmt.Sprintf("__vh.OrderIface(%q, ", id)}, edit{off(v.End()), 0, ")"})
						}
					case "Iter":
						if len(v.Args) == 0 {
							id := newSite("set.Iter", v.Pos())
							// X.Iter() -> __vh.IterChan(id, X.ToSlice())
							edits = append(edits, edit{off(v.Pos()), 0, fmt.Sprintf("__vh.IterChan(%q, ", id)},
								edit{off(sel.Sel.Pos()), len("Iter"), "ToSlice"}, edit{off(v.End()), 0, ")"})
						}
					case "Each":
						if len(v.Args) == 1 {
							id := newSite("set.Each", v.Pos())
							// X.Each(f) -> __vh.Each(id, X.ToSlice(), f)
							edits = append(edits, edit{off(v.Pos()), 0, fmt.Sprintf("__vh.Each(%q, ", id)},
								edit{off(sel.Sel.Pos()), off(v.Args[0].Pos()) - off(sel.Sel.Pos()), "ToSlice(), "})
						}
					}
				case *ast.RangeStmt:
					t := p.TypesInfo.TypeOf(v.X)
					if t == nil {
						return true
					}
					mt, ok := t.Underlying().(*types.Map)
					if !ok {
						return true
					}
					if v.Key == nil && v.Value == nil {
						return true // `for range m`: order unobservable
					}
					kname, vname := "_", "_"
					if id, ok := v.Key.(*ast.Ident); ok {
						kname = id.Name
					} else if v.Key != nil {
						skipped = append(skipped, site{ID: rel, Kind: "range-non-ident-key", Pos: p.Fset.Position(v.Pos()).String()})
						return true
					}
					if v.Value != nil {
						if id, ok := v.Value.(*ast.Ident); ok {
							vname = id.Name
						} else {
							skipped = append(skipped, site{ID: rel, Kind: "range-non-ident-value", Pos: p.Fset.Position(v.Pos()).String()})
							return true
						}
					}
					// closures capturing the loop variables: per-iteration vs shared semantics differ (go 1.17)
					captured := false
					ast.Inspect(v.Body, func(x ast.Node) bool {
						if fl, ok := x.(*ast.FuncLit); ok {
							ast.Inspect(fl.Body, func(y ast.Node) bool {
								if id, ok := y.(*ast.Ident); ok && (id.Name == kname && kname != "_" || id.Name == vname && vname != "_") {
									captured = true
								}
								return true
							})
						}
						return true
					})
					if captured && v.Tok == token.DEFINE {
						// per-iteration copies are what every caller of such closures in this repo
						// relies on only when the closure runs inside the iteration; keep but record
						skipped = append(skipped, site{ID: rel, Kind: "range-closure-capture(instrumented, per-iteration vars)", Pos: p.Fset.Position(v.Pos()).String()})
					}
					counter++
					n := counter
					id := newSite("range", v.Pos())
					ktype := types.TypeString(mt.Key(), qual)
					label := ""
					start := off(v.Pos())
					if l, ok := labelOf[v]; ok {
						label = l.Label.Name + ": "
						start = off(l.Pos())
					}
					var hdr strings.Builder
					fmt.Fprintf(&hdr, "{ __m%d := %s; __keys%d := make([]%s, 0, len(__m%d)); for __k := range __m%d { __keys%d = append(__keys%d, __k) }; __vh.Order(%q, &__keys%d); %sfor _, __k%d := range __keys%d { ",
						n, string(src[off(v.X.Pos()):off(v.X.End())]), n, ktype, n, n, n, n, id, n, label, n, n)
					if vname != "_" {
						fmt.Fprintf(&hdr, "__v%d, __ok%d := __m%d[__k%d]; if !__ok%d { continue }; ", n, n, n, n, n)
					} else {
						fmt.Fprintf(&hdr, "if _, __ok%d := __m%d[__k%d]; !__ok%d { continue }; ", n, n, n, n)
					}
					asg := ":="
					if v.Tok == token.ASSIGN {
						asg = "="
					}
					switch {
					case kname != "_" && vname != "_":
						fmt.Fprintf(&hdr, "%s, %s %s __k%d, __v%d; ", kname, vname, asg, n, n)
					case kname != "_":
						fmt.Fprintf(&hdr, "%s %s __k%d; ", kname, asg, n)
					case vname != "_":
						fmt.Fprintf(&hdr, "%s %s __v%d; ", vname, asg, n)
					}
					if v.Tok == token.DEFINE {
						if kname != "_" {
							fmt.Fprintf(&hdr, "_ = %s; ", kname)
						}
						if vname != "_" {
							fmt.Fprintf(&hdr, "_ = %s; ", vname)
						}
					}
					edits = append(edits, edit{start, off(v.Body.Lbrace) + 1 - start, hdr.String()})
					edits = append(edits, edit{off(v.Body.Rbrace), 1, "}}"})
				}
				return true
			}
			for _, d := range f.Decls {
				if fd, ok := d.(*ast.FuncDecl); ok && fd.Body != nil {
					curFunc = fd.Name.Name
					ast.Inspect(fd.Body, visit)
				} else if gd, ok := d.(*ast.GenDecl); ok {
					curFunc = "_pkginit"
					ast.Inspect(gd, visit)
				}
			}
			if len(edits) == 0 {
				continue
			}
			// nested range over a map inside the *header expression* of another is impossible;
			// edits are disjoint. An X expression that itself contains a rewritten set call is
			// copied textually into the header, so such an inner edit would be lost: detect.
			sort.Slice(edits, func(i, j int) bool {
				if edits[i].off != edits[j].off {
					return edits[i].off > edits[j].off
				}
				return edits[i].del > edits[j].del
			})
			for i := 1; i < len(edits); i++ {
				hi, lo := edits[i-1], edits[i]
				if lo.off+lo.del > hi.off && !(lo.off == hi.off && lo.del == 0) {
					die("overlapping edits in %s at offsets %d/%d", rel, lo.off, hi.off)
				}
			}
			res := src
			for _, e := range edits {
				res = append(append(append([]byte{}, res[:e.off]...), []byte(e.ins)...), res[e.off+e.del:]...)
			}
			// imports right after the package clause
			pe := off(f.Name.End())
			imp := "; import __vh \"" + modPath + "/verifhook\""
			var ap []string
			for pth := range aliases {
				ap = append(ap, pth)
			}
			sort.Strings(ap)
			for _, pth := range ap {
				imp += fmt.Sprintf("; import %s %q", aliases[pth], pth)
			}
			res = append(append(append([]byte{}, res[:pe]...), []byte(imp)...), res[pe:]...)
			dst := filepath.Join(*out, "gen", rel)
			os.MkdirAll(filepath.Dir(dst), 0o755)
			if err := os.WriteFile(dst, res, 0o644); err != nil {
				die("%v", err)
			}
			ov.Replace[logical] = dst
		}
	}
	nb, _ := json.MarshalIndent(ov, "", " ")
	if err := os.WriteFile(*ovPath, nb, 0o644); err != nil {
		die("%v", err)
	}
	sb, _ := json.MarshalIndent(map[string]interface{}{"sites": sites, "notes": skipped}, "", " ")
	os.WriteFile(filepath.Join(*out, "maporder_sites.json"), sb, 0o644)
	fmt.Printf("maptool: %d order choice sites instrumented, %d notes\n", len(sites), len(skipped))
}
