// Package fsync drives the real fast sync (protocol.fastSync through its export shim) of a follower replica
// against a source replica; shared by C09 (crash points of the whole operation) and C11 (what the synced node stores).
package fsync

// C09, part 2: a crash at any point of a fast sync (header / identity-diff replay onto the
// preliminary copies, snapshot import, AtomicSwitchToPreliminary and the deletion of the old
// state databases) leaves a node that restarts into a consistent chain.
//
// The follower performs exactly the calls of protocol/fast.go (preConsuming, validateHeader,
// validateIdentityState, applyDeferredBlocks, postConsuming) against a source replica instead of
// peers; its database is the logging crashdb, and every prefix of the write log is crash-tested.

import (
	"bytes"
	"fmt"
	"os"
	"runtime/debug"
	"strings"

	"github.com/idena-network/idena-go/blockchain/types"
	"github.com/idena-network/idena-go/core/state"
	"github.com/idena-network/idena-go/core/state/snapshot"
	"github.com/idena-network/idena-go/protocol"
	"github.com/idena-network/idena-go/verifhook"
	"verif/mc/crashdb"
	"verif/mc/replica"
	"verif/mc/report"
	"verif/mc/world"
)

type fsScript struct {
	name   string
	blocks [][]string // templates per source block ("" = none); "@empty" = empty block
}

func fsScripts(thorough bool) []fsScript {
	s := []fsScript{
		{"plain + kill + snapshot", [][]string{{"send X1->X2 1"}, {"kill V2"}, {}, {"send X2->X1 2"}, {}, {}, {"send X1->X2 1"}, {}}},
		{"delegations and empty blocks", [][]string{{"delegate D1->P", "delegate D2->P"}, {"@empty"}, {}, {"undelegate D1"}, {"kill D1"}, {}, {"@empty"}, {"send X1->X2 1"}}},
		{"status switch applied by a tx-less block (the proposer changes with it)", [][]string{{}, {}, {}, {"online V1"}, {}, {}, {"send X1->X2 1"}, {}, {}, {}}},
		{"contract + god hand-over", [][]string{{}, {}, {"deploy timelock X1 stake ok"}, {"changeGodKeep"}, {"kill N1"}, {}, {}, {}}},
	}
	if thorough {
		s = append(s, fsScript{"long", [][]string{{"send X1->X2 1"}, {"kill V2"}, {}, {"kill V1"}, {}, {}, {"delegate D1->P"}, {}, {}, {"kill D2"}, {}, {}, {"send X1->X2 1"}, {}}})
	}
	return s
}

type fsSource struct {
	r      *replica.Replica
	blocks []*types.Block
	certs  []*types.BlockCert
	images map[uint64]replica.Image // database image after each height
	base   uint64                   // height of the genesis block
}

func (s *fsSource) block(h uint64) *types.Block { return s.blocks[h-s.base-1] }

func buildSource(sc fsScript) *fsSource {
	o := world.GenesisG2()
	S, err := world.OpenAs(o, nil, world.T0, world.G)
	if err != nil {
		panic(err)
	}
	src := &fsSource{r: S, images: map[uint64]replica.Image{S.Chain.Head.Height(): replica.Snapshot(S.DB)}, base: S.Chain.Head.Height()}
	menu := world.Menu()
	now := int64(world.T0)
	cur := world.G
	for _, names := range sc.blocks {
		now += 20
		// the proposer (and the one-member committee that certifies) follows the state: the god while nobody is
		// online, the online validator afterwards
		if k := world.PickProposer(S); k != cur {
			S2, err := world.OpenAs(o, replica.Snapshot(S.DB), now, k)
			if err != nil {
				panic(err)
			}
			S, cur = S2, k
			src.r = S
		}
		var blk *types.Block
		if len(names) == 1 && names[0] == "@empty" {
			replica.SetTime(now)
			blk = S.Empty()
		} else {
			b := world.NewB(S)
			var txs []*types.Transaction
			for _, n := range names {
				if n == "changeGodKeep" {
					continue
				}
				var t *world.Tmpl
				for i := range menu {
					if menu[i].Name == n {
						t = &menu[i]
					}
				}
				if t == nil {
					t = world.Dyn(n)
				}
				if t == nil {
					panic("no template " + n)
				}
				if tx := t.Build(b); tx != nil {
					txs = append(txs, tx)
				}
			}
			world.Submit(S, txs)
			blk = S.Propose(now)
		}
		if err := S.Add(blk); err != nil {
			panic(fmt.Sprintf("source block %d: %v", blk.Height(), err))
		}
		cert := S.SelfCert(blk, cur) // one-member committee: the god, or the only online validator
		if os.Getenv("VERIF_C09_DEBUG") != "" {
			d := S.Chain.GetIdentityDiff(blk.Height())
			n := -1
			if d != nil {
				bb, _ := d.ToBytes()
				n = len(bb)
			}
			fmt.Fprintf(os.Stderr, "DEBUG %q h=%d proposer=%d txs=%d flags=%b diffBytes=%d empty=%v\n", sc.name, blk.Height(), cur, len(blk.Body.Transactions), blk.Header.Flags(), n, blk.IsEmpty())
		}
		src.blocks = append(src.blocks, blk)
		src.certs = append(src.certs, cert)
		src.images[blk.Height()] = replica.Snapshot(S.DB)
	}
	return src
}

// fastSync runs the real protocol.fastSync on F up to the manifest height m: preConsuming (incl. the resume
// from an existing preliminary head, or dropping preliminaries that cannot be loaded), then for every header
// the real validateHeader / applyDeferredBlocks exactly as processBatch calls them (export shim
// protocol.VerifFastSync; the harness plays the peer and serves header, stored certificate and identity diff
// of the source). Only the tail of postConsuming is mirrored here - the snapshot arrives as a byte stream
// instead of an IPFS download (SnapshotManager.DownloadSnapshot needs a real IPFS node): RecoverSnapshot2,
// SaveForcedVersion and AtomicSwitchToPreliminary are the real functions called in postConsuming's order.
func fastSync(F *replica.Replica, src *fsSource, m uint64) error {
	chain := F.Chain
	mf := &snapshot.Manifest{Height: m}
	fsx := protocol.VerifNewFastSync(chain, F.App, F.Ipfs, mf, F.Bus, F.Sec.GetAddress(), replica.KeyStore(), replica.Subs(), F.Upgrader)
	from, err := fsx.PreConsuming(chain.Head)
	if err != nil {
		return fmt.Errorf("preConsuming: %w", err)
	}
	if from > m+1 {
		return fmt.Errorf("preliminary head %d above the manifest height %d", from-1, m)
	}
	for h := from; h <= m; h++ {
		blk := src.block(h)
		cert := src.r.Chain.GetCertificate(blk.Hash())
		diff := src.r.Chain.GetIdentityDiff(h)
		if diff == nil {
			diff = &state.IdentityStateDiff{}
		}
		if err := fsx.Feed(blk.Header, cert, diff); err != nil {
			return fmt.Errorf("header %d: %w", h, err)
		}
	}
	if fsx.Deferred() != 0 {
		return fmt.Errorf("%d headers left without a certified descendant", fsx.Deferred())
	}
	// postConsuming
	if chain.PreliminaryHead.Height() != m {
		return fmt.Errorf("preliminary head is lower than manifest's head")
	}
	SM, err := world.OpenAs(src.r.Opts, src.images[m], src.block(m).Header.Time(), world.G)
	if err != nil {
		return err
	}
	var buf bytes.Buffer
	root, err := SM.App.State.WriteSnapshot2(m, &buf)
	if err != nil {
		return fmt.Errorf("source cannot export its state: %w", err)
	}
	mf.Root = root
	if err := F.App.State.RecoverSnapshot2(m, chain.PreliminaryHead.Root(), bytes.NewReader(buf.Bytes())); err != nil {
		return fmt.Errorf("RecoverSnapshot2: %w", err)
	}
	fsx.IdentityStateDB().SaveForcedVersion(chain.PreliminaryHead.Height())
	return chain.AtomicSwitchToPreliminary(mf)
}

// Part runs every fast sync of the script set; with crash=true every prefix of each sync's write log is
// additionally crash-tested (C09), otherwise only the completed syncs are judged (C11).
func Part(run *report.Run, crash bool) {
	saved := verifhook.GoPolicy
	verifhook.GoPolicy = func(site string) verifhook.GoMode {
		if strings.Contains(site, "AtomicSwitchToPreliminary") {
			return verifhook.GoInline // the deletion of the old state databases is part of the write log
		}
		return saved(site)
	}
	defer func() { verifhook.GoPolicy = saved }()
	for _, sc := range fsScripts(run.Thorough()) {
		src := buildSource(sc)
		top := src.r.Chain.Head.Height()
		// manifest heights: every Snapshot-flag block that leaves at least one block to catch up
		for _, mb := range src.blocks {
			m := mb.Height()
			if !mb.Header.Flags().HasFlag(types.Snapshot) || m >= top {
				continue
			}
			for _, h0 := range []uint64{src.base, src.base + 1, src.base + 2} {
				if h0 >= m {
					continue
				}
				if run.Expired("fast-sync crash enumeration") {
					return
				}
				what := fmt.Sprintf("fast sync %q from height %d to snapshot %d (source head %d)", sc.name, h0, m, top)
				cdb := crashdb.New(src.images[h0])
				o := src.r.Opts
				o.KeyIdx = world.X2
				replica.SetTime(src.r.Chain.Head.Time() + 1)
				F, err := replica.New(o, cdb)
				if err != nil {
					panic(err)
				}
				cdb.Log = nil // start-up writes are not part of the operation
				// the node served reads on its main state before the sync (RPC, mempool): its state objects are cached
				_ = stateView(F.App.State)
				if err := fastSync(F, src, m); err != nil {
					run.Violation("fast-sync-fails", what+": "+err.Error(), nil)
					return
				}
				run.Add("fast_syncs", 1)
				if F.Chain.Head.Height() != m || F.Chain.Head.Root() != F.App.State.Root() || F.Chain.Head.IdentityRoot() != F.App.IdentityState.Root() {
					run.Violation("fast-sync-result", fmt.Sprintf("%s: after the switch head=%d, state root ok=%v, identity root ok=%v", what, F.Chain.Head.Height(), F.Chain.Head.Root() == F.App.State.Root(), F.Chain.Head.IdentityRoot() == F.App.IdentityState.Root()), nil)
					return
				}
				// what the node stores for the heights it did not execute is what it will serve to the next
				// syncing node: the identity diffs and certificates must be the source's
				for h := h0 + 1; h <= m; h++ {
					want, got := src.r.Chain.GetIdentityDiff(h), F.Chain.GetIdentityDiff(h)
					var wb, gb []byte
					if want != nil {
						wb, _ = want.ToBytes()
					}
					if got != nil {
						gb, _ = got.ToBytes()
					}
					if !bytes.Equal(wb, gb) {
						run.Violation("fast-sync:identity-diff-differs", fmt.Sprintf("%s: the identity diff stored for height %d (%d bytes) is not the source's (%d bytes; block has %d txs): a node syncing from this one cannot replay it to the header's identity root", what, h, len(gb), len(wb), len(src.block(h).Body.Transactions)), nil)
						return
					}
					wc, gc := src.r.Chain.GetCertificate(src.block(h).Hash()), F.Chain.GetCertificate(src.block(h).Hash())
					if !wc.Empty() && gc.Empty() {
						run.Violation("fast-sync:certificate-missing", fmt.Sprintf("%s: the certificate of height %d is not stored after the fast sync", what, h), nil)
						return
					}
					run.Add("fast_sync_heights_compared", 1)
					if len(wb) > 0 && len(src.block(h).Body.Transactions) == 0 {
						run.Add("fast_sync_txless_blocks_with_identity_diff", 1)
					}
				}
				n := len(cdb.Log)
				if !crash {
					// the node keeps running on the same state objects: what it reads now is the snapshot's content,
					// and it follows the rest of the source chain to the same roots
					SM, err := world.OpenAs(src.r.Opts, src.images[m], src.block(m).Header.Time(), world.G)
					if err != nil {
						panic(err)
					}
					if got, want := stateView(F.App.State), stateView(SM.App.State); got != want {
						run.Violation("fast-sync:state-reads-differ", fmt.Sprintf("%s: after the switch the running node reads other values from its state than a node that executed the chain to height %d:\n got  %s\n want %s", what, m, got, want), nil)
						return
					}
					for h := m + 1; h <= top; h++ {
						replica.SetTime(src.block(h).Header.Time() + 1)
						if err := F.Add(src.block(h)); err != nil {
							run.Violation("fast-sync:running-node-rejects-next-block", fmt.Sprintf("%s: the node that kept running after the switch rejects block %d of the source chain: %v", what, h, err), nil)
							return
						}
						run.Add("fast_sync_blocks_followed_after_switch", 1)
					}
					if F.App.State.Root() != src.r.App.State.Root() || F.App.IdentityState.Root() != src.r.App.IdentityState.Root() {
						run.Violation("fast-sync:roots-differ-after-catch-up", what+": after following the source chain to its head the roots differ from the source's", nil)
						return
					}
					run.Sample(map[string]interface{}{"operation": what, "heights_compared": m - h0, "blocks_followed_after_switch": top - m})
					continue
				}
				for k := 0; k <= n; k++ {
					if !fsRecover(run, o, src, cdb, src.images[h0], k, what, h0, m) {
						return
					}
				}
				run.Sample(map[string]interface{}{"operation": what, "write_log_entries": n})
			}
		}
	}
}

// stateView reads the main state through its public getters (and thereby fills its object cache).
func stateView(st *state.StateDB) string {
	var sb strings.Builder
	fmt.Fprintf(&sb, "epoch=%d next=%d period=%d god=%x feePerGas=%v shards=%d", st.Epoch(), st.NextValidationTime().Unix(), st.ValidationPeriod(), st.GodAddress().Bytes()[:4], st.FeePerGas(), st.ShardsNum())
	for i := 0; i <= world.NEW2; i++ {
		a := world.A(i)
		id := st.GetIdentity(a)
		fmt.Fprintf(&sb, " | %s bal=%v nonce=%d ep=%d st=%d stake=%v inv=%d", world.ActorNames[i], st.GetBalance(a), st.GetNonce(a), st.GetEpoch(a), id.State, id.Stake, id.Invites)
	}
	return sb.String()
}

// fsRecover restarts on the first k writes and checks the node.
func fsRecover(run *report.Run, o replica.Opts, src *fsSource, cdb *crashdb.DB, img replica.Image, k int, what string, h0, m uint64) bool {
	n := len(cdb.Log)
	surv := crashdb.Apply(img, cdb.Log, k)
	ref := src.r
	replica.SetTime(ref.Chain.Head.Time() + 1)
	var rec *replica.Replica
	var err error
	func() {
		defer func() {
			if p := recover(); p != nil {
				st := string(debug.Stack())
				if len(st) > 4000 {
					st = st[:4000]
				}
				err = fmt.Errorf("PANIC during start-up: %v\n%s", p, st)
			}
		}()
		rec, err = replica.New(o, surv)
	}()
	run.Add("crash_points", 1)
	run.Add("fast_sync_crash_points", 1)
	tag := fmt.Sprintf("%s, crash after write %d of %d", what, k, n)
	rp := map[string]interface{}{"k": k, "n": n, "operation": what}
	if err != nil {
		run.Violation("fast-sync:startup-fails", tag+": the start-up sequence fails on the surviving database: "+short(err.Error(), 600), rp)
		return false
	}
	h := rec.Chain.Head.Height()
	if rec.Chain.Head.Root() != rec.App.State.Root() || rec.Chain.Head.IdentityRoot() != rec.App.IdentityState.Root() {
		run.Violation("fast-sync:head-roots-mismatch", fmt.Sprintf("%s: after restart (head %d) the head's roots differ from the loaded trees (state ok=%v, identity ok=%v)", tag, h, rec.Chain.Head.Root() == rec.App.State.Root(), rec.Chain.Head.IdentityRoot() == rec.App.IdentityState.Root()), rp)
		return false
	}
	if h != h0 && h != m {
		run.Violation("fast-sync:head-between", fmt.Sprintf("%s: restarted head %d is neither the old head %d nor the snapshot height %d", tag, h, h0, m), rp)
		return false
	}
	run.Outcome(fmt.Sprintf("fast sync: restarted at %s", map[bool]string{true: "old head", false: "snapshot height"}[h == h0]))
	if rb := ref.Chain.GetBlockHeaderByHeight(h); rb == nil || rb.Hash() != rec.Chain.Head.Hash() {
		run.Violation("fast-sync:head-not-on-reference-chain", tag+": restarted head is not a block of the source chain", rp)
		return false
	}
	// a node that restarted at its old head resumes the fast sync (a second restart on the same
	// surviving database), and must arrive at the snapshot height in a consistent state
	if h == h0 {
		surv2 := crashdb.Apply(img, cdb.Log, k)
		replica.SetTime(ref.Chain.Head.Time() + 1)
		rec2, err := replica.New(o, surv2)
		if err != nil {
			run.Violation("fast-sync:startup-fails", tag+": second start-up fails: "+short(err.Error(), 300), rp)
			return false
		}
		var rerr error
		func() {
			defer func() {
				if p := recover(); p != nil {
					rerr = fmt.Errorf("PANIC: %v", p)
				}
			}()
			rerr = fastSync(rec2, src, m)
		}()
		run.Add("fast_sync_resumes", 1)
		if rerr != nil {
			run.Violation("fast-sync:resume-fails", fmt.Sprintf("%s: resuming the fast sync after the restart fails: %s", tag, short(rerr.Error(), 400)), rp)
			return false
		}
		if rec2.Chain.Head.Height() != m || rec2.Chain.Head.Root() != rec2.App.State.Root() || rec2.Chain.Head.IdentityRoot() != rec2.App.IdentityState.Root() {
			run.Violation("fast-sync:resume-result", fmt.Sprintf("%s: after the resumed fast sync head=%d, state root ok=%v, identity root ok=%v", tag, rec2.Chain.Head.Height(), rec2.Chain.Head.Root() == rec2.App.State.Root(), rec2.Chain.Head.IdentityRoot() == rec2.App.IdentityState.Root()), rp)
			return false
		}
		for hh := m + 1; hh <= ref.Chain.Head.Height(); hh++ {
			if aerr := rec2.Add(src.block(hh)); aerr != nil {
				run.Violation("fast-sync:resumed-node-rejects-next-block", fmt.Sprintf("%s: after the resumed fast sync the node rejects canonical block %d: %v", tag, hh, aerr), rp)
				return false
			}
		}
		if rec2.Chain.Head.Hash() != ref.Chain.Head.Hash() || rec2.App.State.Root() != ref.App.State.Root() || rec2.App.IdentityState.Root() != ref.App.IdentityState.Root() {
			run.Violation("fast-sync:resumed-node-diverges", tag+": after the resumed fast sync and catch-up head/roots differ from the source", rp)
			return false
		}
		run.Outcome("fast sync: resumed after restart at old head")
	}
	// catch up with full blocks
	for hh := h + 1; hh <= ref.Chain.Head.Height(); hh++ {
		blk := src.block(hh)
		var aerr error
		func() {
			defer func() {
				if p := recover(); p != nil {
					aerr = fmt.Errorf("PANIC: %v", p)
				}
			}()
			aerr = rec.Add(blk)
		}()
		if aerr != nil {
			run.Violation("fast-sync:restarted-node-rejects-next-block", fmt.Sprintf("%s: restarted node (head %d) rejects canonical block %d: %v", tag, h, hh, aerr), rp)
			return false
		}
	}
	if rec.Chain.Head.Hash() != ref.Chain.Head.Hash() || rec.App.State.Root() != ref.App.State.Root() || rec.App.IdentityState.Root() != ref.App.IdentityState.Root() {
		run.Violation("fast-sync:restarted-node-diverges", tag+": after catching up the restarted node's head/roots differ from the source", rp)
		return false
	}
	for hh := src.base; hh <= ref.Chain.Head.Height(); hh++ {
		a, b := rec.Chain.GetBlockHeaderByHeight(hh), ref.Chain.GetBlockHeaderByHeight(hh)
		if h == h0 || hh > m || a != nil { // (a node that crashed before the switch may have replayed only some headers)
			if a != nil && a.Hash() != b.Hash() {
				run.Violation("fast-sync:canonical-index-differs", fmt.Sprintf("%s: canonical index at height %d differs from the source", tag, hh), rp)
				return false
			}
		}
		if hh > h {
			if a == nil {
				run.Violation("fast-sync:canonical-index-hole", fmt.Sprintf("%s: canonical index at height %d is missing after catch-up", tag, hh), rp)
				return false
			}
		}
	}
	return true
}

func short(s string, n int) string {
	if len(s) > n {
		return s[:n]
	}
	return s
}
