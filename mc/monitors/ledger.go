// Package monitors holds oracles shared by the chain properties.
package monitors

import (
	"fmt"
	"math/big"
	"sort"

	"github.com/idena-network/idena-go/common"
	"github.com/idena-network/idena-go/core/state"
	"verif/mc/replica"
)

type Entry struct {
	Bal, Stake, Locked, Replenished, CStake *big.Int
	State                                   state.IdentityState
	HasIdentity, HasAccount                 bool
}

func z(x *big.Int) *big.Int {
	if x == nil {
		return new(big.Int)
	}
	return x
}

// Funds = balance + stake + contract stake (locked/replenished are sub-amounts of stake).
func (e Entry) Funds() *big.Int {
	r := new(big.Int).Add(z(e.Bal), z(e.Stake))
	return r.Add(r, z(e.CStake))
}

type Ledger map[common.Address]*Entry

// ReadLedger iterates the committed state of r (full iteration of accounts and identities).
func ReadLedger(r *replica.Replica) Ledger {
	l := Ledger{}
	st := r.App.State
	get := func(a common.Address) *Entry {
		e, ok := l[a]
		if !ok {
			e = &Entry{}
			l[a] = e
		}
		return e
	}
	st.IterateOverAccounts(func(addr common.Address, acc state.Account) {
		e := get(addr)
		e.HasAccount = true
		e.Bal = acc.Balance
		if acc.Contract != nil {
			e.CStake = acc.Contract.Stake
		}
	})
	st.IterateOverIdentities(func(addr common.Address, id state.Identity) {
		e := get(addr)
		e.HasIdentity = true
		e.Stake = id.Stake
		e.State = id.State
		e.Locked = st.GetLockedStake(addr)
		e.Replenished = st.GetReplenishedStakeBalance(addr)
	})
	return l
}

func (l Ledger) Total() *big.Int {
	t := new(big.Int)
	for _, e := range l {
		t.Add(t, e.Funds())
	}
	return t
}

func (l Ledger) Addrs() []common.Address {
	var r []common.Address
	for a := range l {
		r = append(r, a)
	}
	sort.Slice(r, func(i, j int) bool { return string(r[i][:]) < string(r[j][:]) })
	return r
}

// Negative returns a description of any negative component.
func (l Ledger) Negative() string {
	for _, a := range l.Addrs() {
		e := l[a]
		for n, v := range map[string]*big.Int{"balance": e.Bal, "stake": e.Stake, "lockedStake": e.Locked, "replenishedStake": e.Replenished, "contractStake": e.CStake} {
			if v != nil && v.Sign() < 0 {
				return fmt.Sprintf("%s of %s is %v", n, a.Hex(), v)
			}
		}
	}
	return ""
}

// SubAmountExcess reports locked/replenished stake exceeding the stake they are part of.
func (l Ledger) SubAmountExcess() string {
	for _, a := range l.Addrs() {
		e := l[a]
		if z(e.Locked).Cmp(z(e.Stake)) > 0 {
			return fmt.Sprintf("lockedStake %v > stake %v of %s", e.Locked, z(e.Stake), a.Hex())
		}
	}
	return ""
}
