package monitors

import (
	"fmt"
	"sort"
	"strings"

	mapset "github.com/deckarep/golang-set"
	"github.com/idena-network/idena-go/blockchain/types"
	"github.com/idena-network/idena-go/common"
	"github.com/idena-network/idena-go/core/validators"
)

func setStr(s mapset.Set) string {
	if s == nil {
		return "<nil>"
	}
	var l []string
	for _, x := range s.ToSlice() {
		l = append(l, x.(common.Address).Hex()[2:8])
	}
	sort.Strings(l)
	return strings.Join(l, ",")
}

// ObserveCache evaluates every public getter of a validator view for the given addresses.
func ObserveCache(vc *validators.ValidatorsCache, addrs []common.Address) map[string]string {
	o := map[string]string{}
	o["NetworkSize"] = fmt.Sprint(vc.NetworkSize())
	o["OnlineSize"] = fmt.Sprint(vc.OnlineSize())
	o["ValidatorsSize"] = fmt.Sprint(vc.ValidatorsSize())
	o["ForkCommitteeSize"] = fmt.Sprint(vc.ForkCommitteeSize())
	o["AllOnline"] = setStr(vc.GetAllOnlineValidators())
	for _, a := range addrs {
		n := a.Hex()[2:8]
		o["IsValidated/"+n] = fmt.Sprint(vc.IsValidated(a))
		o["IsOnlineIdentity/"+n] = fmt.Sprint(vc.IsOnlineIdentity(a))
		o["IsPool/"+n] = fmt.Sprint(vc.IsPool(a))
		o["PoolSize/"+n] = fmt.Sprint(vc.PoolSize(a))
		o["IsDiscriminated/"+n] = fmt.Sprint(vc.IsDiscriminated(a))
		o["Delegator/"+n] = vc.Delegator(a).Hex()[2:8]
		if vc.IsPool(a) {
			for nonce := uint32(0); nonce <= uint32(vc.PoolSize(a))+1; nonce++ {
				sub, nn := vc.FindSubIdentity(a, nonce)
				o[fmt.Sprintf("FindSubIdentity/%s/%d", n, nonce)] = fmt.Sprintf("%s,%d", sub.Hex()[2:8], nn)
			}
			o["PoolSizeExcept/"+n] = fmt.Sprint(vc.PoolSizeExceptNodes(a, addrs[:2]))
		}
	}
	size := vc.ValidatorsSize()
	for si, seed := range []types.Seed{{1}, {2, 7}, {0xff, 3}} {
		for _, step := range []uint8{1, 2, types.Final} {
			for _, limit := range []int{1, size / 2, size} {
				if limit < 1 {
					continue
				}
				sv := vc.GetOnlineValidators(seed, 7, step, limit)
				k := fmt.Sprintf("Committee/seed%d/step%d/limit%d", si, step, limit)
				if sv == nil {
					o[k] = "<nil>"
					continue
				}
				o[k] = fmt.Sprintf("orig[%s] val[%s] appr[%s] sub=%d", setStr(sv.Original), setStr(sv.Validators), setStr(sv.ApprovedValidators), sv.VotesCountSubtrahend(0.65))
			}
		}
	}
	return o
}

// DiffObs returns the first differences between two observations.
func DiffObs(a, b map[string]string) []string {
	var keys []string
	for k := range a {
		keys = append(keys, k)
	}
	for k := range b {
		if _, ok := a[k]; !ok {
			keys = append(keys, k)
		}
	}
	sort.Strings(keys)
	var d []string
	for _, k := range keys {
		if a[k] != b[k] {
			d = append(d, fmt.Sprintf("%s: %q vs %q", k, a[k], b[k]))
			if len(d) >= 6 {
				break
			}
		}
	}
	return d
}

func ObsFingerprint(o map[string]string) string {
	var keys []string
	for k := range o {
		keys = append(keys, k)
	}
	sort.Strings(keys)
	var sb strings.Builder
	for _, k := range keys {
		sb.WriteString(k + "=" + o[k] + ";")
	}
	return sb.String()
}
