package verifhook

import (
	"bytes"
	"fmt"
	"reflect"
	"sort"
	"sync"
)

// OrderChooser, when set by an explorer, picks the iteration order at a choice site:
// it receives the site id and the number of elements (already in canonical order) and
// returns a permutation of 0..n-1 (nil = canonical).
var (
	orderMu      sync.Mutex
	OrderChooser func(site string, n int) []int
	// OrderSeen records, per site, the largest element count observed (site discovery).
	OrderSeen = map[string]int{}
	// OrderTrace, when non-nil, receives every (site, n) in execution order.
	OrderTrace func(site string, n int)
)

func keyBytes(v reflect.Value) []byte {
	switch v.Kind() {
	case reflect.String:
		return []byte(v.String())
	case reflect.Array:
		if v.Type().Elem().Kind() == reflect.Uint8 {
			b := make([]byte, v.Len())
			for i := range b {
				b[i] = byte(v.Index(i).Uint())
			}
			return b
		}
	case reflect.Int, reflect.Int8, reflect.Int16, reflect.Int32, reflect.Int64:
		x := uint64(v.Int()) ^ (1 << 63)
		return []byte{byte(x >> 56), byte(x >> 48), byte(x >> 40), byte(x >> 32), byte(x >> 24), byte(x >> 16), byte(x >> 8), byte(x)}
	case reflect.Uint, reflect.Uint8, reflect.Uint16, reflect.Uint32, reflect.Uint64:
		x := v.Uint()
		return []byte{byte(x >> 56), byte(x >> 48), byte(x >> 40), byte(x >> 32), byte(x >> 24), byte(x >> 16), byte(x >> 8), byte(x)}
	case reflect.Interface, reflect.Ptr:
		if v.IsNil() {
			return nil
		}
		if v.Kind() == reflect.Interface {
			return keyBytes(v.Elem())
		}
	}
	return []byte(fmt.Sprintf("%#v", v.Interface()))
}

func choose(site string, n int) []int {
	orderMu.Lock()
	if n > OrderSeen[site] {
		OrderSeen[site] = n
	}
	ch, tr := OrderChooser, OrderTrace
	orderMu.Unlock()
	if tr != nil {
		tr(site, n)
	}
	if ch == nil || n < 2 {
		return nil
	}
	return ch(site, n)
}

// Order sorts *keysPtr (a pointer to a slice) canonically and applies the explorer's permutation.
func Order(site string, keysPtr interface{}) {
	s := reflect.ValueOf(keysPtr).Elem()
	n := s.Len()
	if n < 2 {
		choose(site, n)
		return
	}
	type kb struct {
		v reflect.Value
		b []byte
	}
	tmp := make([]kb, n)
	for i := 0; i < n; i++ {
		e := reflect.New(s.Type().Elem()).Elem()
		e.Set(s.Index(i))
		tmp[i] = kb{e, keyBytes(e)}
	}
	sort.SliceStable(tmp, func(i, j int) bool { return bytes.Compare(tmp[i].b, tmp[j].b) < 0 })
	perm := choose(site, n)
	for i := 0; i < n; i++ {
		j := i
		if perm != nil {
			j = perm[i]
		}
		s.Index(i).Set(tmp[j].v)
	}
}

// OrderIface orders a []interface{} (golang-set ToSlice result).
func OrderIface(site string, in []interface{}) []interface{} {
	out := append([]interface{}{}, in...)
	Order(site, &out)
	return out
}

// IterChan replaces Set.Iter(): a closed, pre-filled channel in the chosen order.
func IterChan(site string, in []interface{}) <-chan interface{} {
	out := OrderIface(site, in)
	ch := make(chan interface{}, len(out))
	for _, v := range out {
		ch <- v
	}
	close(ch)
	return ch
}

// Each replaces Set.Each(f): f returning true stops the iteration (golang-set semantics).
func Each(site string, in []interface{}, f func(interface{}) bool) {
	for _, v := range OrderIface(site, in) {
		if f(v) {
			break
		}
	}
}
