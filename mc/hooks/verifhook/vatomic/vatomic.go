// Package vatomic replaces sync/atomic in instrumented files: the operation stays atomic and is
// preceded by a scheduling point.
package vatomic

import (
	"sync/atomic"

	"github.com/idena-network/idena-go/verifhook/vsync"
)

type Value = atomic.Value

func pt(s string) {
	if vsync.H != nil {
		vsync.H.Point(s)
	}
}

func AddUint32(p *uint32, d uint32) uint32 { pt("atomic.AddUint32"); return atomic.AddUint32(p, d) }
func AddInt32(p *int32, d int32) int32     { pt("atomic.AddInt32"); return atomic.AddInt32(p, d) }
func AddUint64(p *uint64, d uint64) uint64 { pt("atomic.AddUint64"); return atomic.AddUint64(p, d) }
func AddInt64(p *int64, d int64) int64     { pt("atomic.AddInt64"); return atomic.AddInt64(p, d) }
func LoadUint32(p *uint32) uint32          { pt("atomic.LoadUint32"); return atomic.LoadUint32(p) }
func LoadInt32(p *int32) int32             { pt("atomic.LoadInt32"); return atomic.LoadInt32(p) }
func LoadUint64(p *uint64) uint64          { pt("atomic.LoadUint64"); return atomic.LoadUint64(p) }
func LoadInt64(p *int64) int64             { pt("atomic.LoadInt64"); return atomic.LoadInt64(p) }
func StoreUint32(p *uint32, v uint32)      { pt("atomic.StoreUint32"); atomic.StoreUint32(p, v) }
func StoreInt32(p *int32, v int32)         { pt("atomic.StoreInt32"); atomic.StoreInt32(p, v) }
func StoreUint64(p *uint64, v uint64)      { pt("atomic.StoreUint64"); atomic.StoreUint64(p, v) }
func StoreInt64(p *int64, v int64)         { pt("atomic.StoreInt64"); atomic.StoreInt64(p, v) }
func CompareAndSwapInt32(p *int32, o, n int32) bool {
	pt("atomic.CAS")
	return atomic.CompareAndSwapInt32(p, o, n)
}
func CompareAndSwapUint32(p *uint32, o, n uint32) bool {
	pt("atomic.CAS")
	return atomic.CompareAndSwapUint32(p, o, n)
}
