// Package vsync replaces package sync in files instrumented by the syncshim pass. With no
// scheduler attached every type degenerates to the real sync primitive (so the same code can
// run free under -race); with a scheduler attached every operation is a scheduling point and
// blocking is modelled explicitly, so that exactly one logical thread runs at any time.
package vsync

import (
	"reflect"
	"sync"
)

// Hook is implemented by the controlled scheduler (verif/mc/sched).
type Hook interface {
	Point(what string)
	Block(what string, ready func() bool)
}

var H Hook

type Locker = sync.Locker
type Once = sync.Once
type Pool = sync.Pool

type Mutex struct {
	real sync.Mutex
	held bool
}

func (m *Mutex) Lock() {
	if H == nil {
		m.real.Lock()
		return
	}
	H.Point("Mutex.Lock")
	if m.held {
		H.Block("Mutex.Lock", func() bool { return !m.held })
	}
	m.held = true
}

func (m *Mutex) Unlock() {
	if H == nil {
		m.real.Unlock()
		return
	}
	if !m.held {
		panic("vsync: unlock of unlocked mutex")
	}
	// no scheduling point: a switch right after a release is equivalent to a switch before the
	// thread's next visible operation
	m.held = false
}

type RWMutex struct {
	real    sync.RWMutex
	writer  bool
	readers int
}

func (m *RWMutex) Lock() {
	if H == nil {
		m.real.Lock()
		return
	}
	H.Point("RWMutex.Lock")
	if m.writer || m.readers > 0 {
		H.Block("RWMutex.Lock", func() bool { return !m.writer && m.readers == 0 })
	}
	m.writer = true
}
func (m *RWMutex) Unlock() {
	if H == nil {
		m.real.Unlock()
		return
	}
	m.writer = false
}
func (m *RWMutex) RLock() {
	if H == nil {
		m.real.RLock()
		return
	}
	H.Point("RWMutex.RLock")
	if m.writer {
		H.Block("RWMutex.RLock", func() bool { return !m.writer })
	}
	m.readers++
}
func (m *RWMutex) RUnlock() {
	if H == nil {
		m.real.RUnlock()
		return
	}
	m.readers--
}
func (m *RWMutex) RLocker() sync.Locker { return (*rlocker)(m) }

type rlocker RWMutex

func (r *rlocker) Lock()   { (*RWMutex)(r).RLock() }
func (r *rlocker) Unlock() { (*RWMutex)(r).RUnlock() }

type WaitGroup struct {
	real sync.WaitGroup
	n    int
}

func (w *WaitGroup) Add(d int) {
	if H == nil {
		w.real.Add(d)
		return
	}
	w.n += d
	H.Point("WaitGroup.Add")
}
func (w *WaitGroup) Done() { w.Add(-1) }
func (w *WaitGroup) Wait() {
	if H == nil {
		w.real.Wait()
		return
	}
	H.Point("WaitGroup.Wait")
	if w.n > 0 {
		H.Block("WaitGroup.Wait", func() bool { return w.n <= 0 })
	}
}

// Map wraps sync.Map; every operation is a scheduling point.
type Map struct{ real sync.Map }

func pt(s string) {
	if H != nil {
		H.Point(s)
	}
}
func (m *Map) Load(k interface{}) (interface{}, bool) { pt("Map.Load"); return m.real.Load(k) }
func (m *Map) Store(k, v interface{})                  { pt("Map.Store"); m.real.Store(k, v) }
func (m *Map) Delete(k interface{})                    { pt("Map.Delete"); m.real.Delete(k) }
func (m *Map) LoadOrStore(k, v interface{}) (interface{}, bool) {
	pt("Map.LoadOrStore")
	return m.real.LoadOrStore(k, v)
}
func (m *Map) LoadAndDelete(k interface{}) (interface{}, bool) {
	pt("Map.LoadAndDelete")
	return m.real.LoadAndDelete(k)
}
func (m *Map) Range(f func(k, v interface{}) bool) { pt("Map.Range"); m.real.Range(f) }

// Recv receives from a channel cooperatively: the logical thread blocks until the channel has an
// element, then the real receive cannot block.
func Recv(ch interface{}) interface{} {
	v := reflect.ValueOf(ch)
	if H != nil {
		H.Point("chan.recv")
		if v.Len() == 0 {
			H.Block("chan.recv", func() bool { return v.Len() > 0 })
		}
	}
	x, _ := v.Recv()
	return x.Interface()
}
