package verifhook

import "sync"

// GoPolicy decides what happens to a rewritten `go` statement.
//   nil / returns GoReal  -> a real goroutine (un-attached mode)
//   GoDrop                -> the function never runs
//   GoInline              -> runs synchronously at the go statement
//   GoDefer               -> queued; the driver runs it through RunDeferred
type GoMode int

const (
	GoReal GoMode = iota
	GoDrop
	GoInline
	GoDefer
)

var (
	goMu     sync.Mutex
	GoPolicy func(site string) GoMode
	deferred []func()
	GoSites  = map[string]int{}
	// Spawner, when set (scheduler mode), takes over every go statement.
	Spawner func(site string, f func())
)

func Go(site string, f func()) {
	if Spawner != nil {
		Spawner(site, f)
		return
	}
	goMu.Lock()
	GoSites[site]++
	pol := GoPolicy
	goMu.Unlock()
	mode := GoReal
	if pol != nil {
		mode = pol(site)
	}
	switch mode {
	case GoReal:
		go f()
	case GoDrop:
	case GoInline:
		f()
	case GoDefer:
		goMu.Lock()
		deferred = append(deferred, f)
		goMu.Unlock()
	}
}

// RunDeferred runs and clears the queued functions; returns how many ran.
func RunDeferred() int {
	goMu.Lock()
	d := deferred
	deferred = nil
	goMu.Unlock()
	for _, f := range d {
		f()
	}
	return len(d)
}

func DropDeferred() {
	goMu.Lock()
	deferred = nil
	goMu.Unlock()
}
