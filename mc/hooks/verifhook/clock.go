// Package verifhook is a virtual package added to the repository by the verification
// overlay (go build -overlay); it does not exist in /repo. Instrumented repository code
// calls it instead of package time / go statements / map ranges.
package verifhook

import (
	"sync"
	"time"
)

var (
	clockMu sync.Mutex
	// virtual "now"; zero means "use the real clock" (un-attached mode)
	vnow time.Time
	// Sleeper, if set, is called by Sleep/After-style functions (scheduler mode).
	Sleeper func(d time.Duration)
)

// SetNow sets the virtual clock (zero time = real clock).
func SetNow(t time.Time) {
	clockMu.Lock()
	vnow = t
	clockMu.Unlock()
}

// SetUnix sets the virtual clock to the given unix second.
func SetUnix(sec int64) { SetNow(time.Unix(sec, 0)) }

func Advance(d time.Duration) {
	clockMu.Lock()
	if !vnow.IsZero() {
		vnow = vnow.Add(d)
	}
	clockMu.Unlock()
}

func Now() time.Time {
	clockMu.Lock()
	t := vnow
	clockMu.Unlock()
	if t.IsZero() {
		return time.Now()
	}
	return t
}

func Virtual() bool {
	clockMu.Lock()
	defer clockMu.Unlock()
	return !vnow.IsZero()
}

func Since(t time.Time) time.Duration { return Now().Sub(t) }
func Until(t time.Time) time.Duration { return t.Sub(Now()) }

func Sleep(d time.Duration) {
	if Sleeper != nil {
		Sleeper(d)
		return
	}
	if Virtual() {
		// sequential explorers: sleeping advances virtual time, never blocks
		Advance(d)
		return
	}
	time.Sleep(d)
}

// After / NewTimer / NewTicker / AfterFunc / Tick: in virtual mode without a scheduler the
// returned channels never fire (service loops are dropped by the Go hook anyway); with a
// scheduler the Timers hook provides them.
var Timers interface {
	After(d time.Duration) <-chan time.Time
}

func After(d time.Duration) <-chan time.Time {
	if Timers != nil {
		return Timers.After(d)
	}
	if Virtual() {
		return make(chan time.Time)
	}
	return time.After(d)
}

func Tick(d time.Duration) <-chan time.Time { return After(d) }

func NewTimer(d time.Duration) *time.Timer {
	if Virtual() {
		t := time.NewTimer(time.Hour * 24 * 365)
		return t
	}
	return time.NewTimer(d)
}

func NewTicker(d time.Duration) *time.Ticker {
	if Virtual() {
		return time.NewTicker(time.Hour * 24 * 365)
	}
	return time.NewTicker(d)
}

func AfterFunc(d time.Duration, f func()) *time.Timer {
	if Virtual() {
		return time.AfterFunc(time.Hour*24*365, f)
	}
	return time.AfterFunc(d, f)
}
