// Package replica builds "the node minus networking" out of the real components, wired
// the way node.NewNodeWithInjections / StartWithHeight do it, on an injected database.
package replica

import (
	"crypto/ecdsa"
	"fmt"
	"math/big"
	"sort"
	"sync"
	"time"

	"github.com/idena-network/idena-go/blockchain"
	"github.com/idena-network/idena-go/blockchain/types"
	"github.com/idena-network/idena-go/blockchain/validation"
	"github.com/idena-network/idena-go/common"
	"github.com/idena-network/idena-go/common/eventbus"
	"github.com/idena-network/idena-go/config"
	"github.com/idena-network/idena-go/core/appstate"
	"github.com/idena-network/idena-go/core/ceremony"
	"github.com/idena-network/idena-go/core/flip"
	"github.com/idena-network/idena-go/core/mempool"
	"github.com/idena-network/idena-go/core/upgrade"
	"github.com/idena-network/idena-go/crypto"
	"github.com/idena-network/idena-go/ipfs"
	"github.com/idena-network/idena-go/keystore"
	"github.com/idena-network/idena-go/secstore"
	"github.com/idena-network/idena-go/stats/collector"
	"github.com/idena-network/idena-go/subscriptions"
	"github.com/idena-network/idena-go/verifhook"
	dbm "github.com/tendermint/tm-db"
)

// ---------------------------------------------------------------- fixed keys

var (
	keyMu     sync.Mutex
	keys      = map[int]*ecdsa.PrivateKey{}
	secs      = map[int]*secstore.SecStore{}
	keystore_ *keystore.KeyStore
	subs_     *subscriptions.Manager
)

// Key returns the i-th fixed private key (deterministic, so addresses/signatures/VRF
// outputs are reproducible from run to run).
func Key(i int) *ecdsa.PrivateKey {
	keyMu.Lock()
	defer keyMu.Unlock()
	if k, ok := keys[i]; ok {
		return k
	}
	var b [32]byte
	h := crypto.Keccak256([]byte(fmt.Sprintf("verif-fixed-key-%d", i)))
	copy(b[:], h)
	b[0] &= 0x7f
	if b[0] == 0 {
		b[0] = 1
	}
	k, err := crypto.ToECDSA(b[:])
	if err != nil {
		panic(err)
	}
	keys[i] = k
	return k
}

func Addr(i int) common.Address { return crypto.PubkeyToAddress(Key(i).PublicKey) }

// KeyStore / Subs: the process-wide (empty) key store and subscription manager the replicas are built with.
func KeyStore() *keystore.KeyStore { return keystore_ }
func Subs() *subscriptions.Manager { return subs_ }

func Sec(i int) *secstore.SecStore {
	k := Key(i)
	keyMu.Lock()
	defer keyMu.Unlock()
	if s, ok := secs[i]; ok {
		return s
	}
	s := secstore.NewSecStore()
	s.AddKey(crypto.FromECDSA(k))
	secs[i] = s
	return s
}

// ---------------------------------------------------------------- options

type Opts struct {
	KeyIdx            int // node key
	God               int // god key index
	Alloc             map[common.Address]config.GenesisAllocation
	FirstCeremonyTime int64
	GodInvites        uint16
	Consensus         *config.ConsensusConf
	Validation        *config.ValidationConfig
	Mempool           *config.Mempool
	WithCeremony      bool
	Ipfs              ipfs.Proxy // shared content store (the "network")
	Network           types.Network
	Debug             bool   // cfg.IsDebug (the bundled WASM test contracts import env.debug)
	GenesisEdit       string // name of a registered genesis-state edit (GenesisEdits), applied when the genesis is generated
}

// GenesisEdits: named edits of the genesis state (a name, not a func: options travel to worker processes).
var GenesisEdits = map[string]func(*appstate.AppState){}

func DefaultConsensus() *config.ConsensusConf {
	c := *blockchain.GetDefaultConsensusConfig()
	return &c
}

type Replica struct {
	Opts     Opts
	Cfg      *config.Config
	DB       dbm.DB
	Bus      eventbus.Bus
	App      *appstate.AppState
	Pool     *mempool.TxPool
	Chain    *blockchain.Blockchain
	Sec      *secstore.SecStore
	Offline  *blockchain.OfflineDetector
	Upgrader *upgrade.Upgrader
	KeysPool *mempool.KeysPool
	Flipper  *flip.Flipper
	Ceremony *ceremony.ValidationCeremony
	Ipfs     ipfs.Proxy
}

type noSync struct{}

func (noSync) IsSyncing() bool { return false }

// GoDropAll is the default go-statement policy of sequential explorers: service loops
// never run (they only decide what this node broadcasts).
func GoDropAll(site string) verifhook.GoMode { return verifhook.GoDrop }

func init() {
	verifhook.GoPolicy = GoDropAll
}

// New starts a replica on db (empty => genesis is generated; an image => normal start-up
// sequence: InitializeChain, appState.Initialize with fallback, EnsureIntegrity, pool init).
func New(o Opts, db dbm.DB) (*Replica, error) {
	if o.Consensus == nil {
		o.Consensus = DefaultConsensus()
	}
	if o.Validation == nil {
		o.Validation = &config.ValidationConfig{}
	}
	if o.Mempool == nil {
		o.Mempool = config.GetDefaultMempoolConfig()
	}
	if o.Ipfs == nil {
		o.Ipfs = ipfs.NewMemoryIpfsProxy()
	}
	if o.Network == 0 {
		o.Network = 0x99
	}
	if o.FirstCeremonyTime == 0 {
		o.FirstCeremonyTime = 4070908800
	}
	alloc := map[common.Address]config.GenesisAllocation{}
	for a, v := range o.Alloc {
		alloc[a] = v
	}
	cfg := &config.Config{
		Network:   o.Network,
		Consensus: o.Consensus,
		GenesisConf: &config.GenesisConf{
			Alloc:             alloc,
			GodAddress:        Addr(o.God),
			FirstCeremonyTime: o.FirstCeremonyTime,
			GodAddressInvites: o.GodInvites,
		},
		Validation:       o.Validation,
		Blockchain:       &config.BlockchainConfig{},
		OfflineDetection: config.GetDefaultOfflineDetectionConfig(),
		Mempool:          o.Mempool,
		Sync:             &config.SyncConfig{},
		IpfsConf:         &config.IpfsConfig{},
		IsDebug:          o.Debug,
	}
	r := &Replica{Opts: o, Cfg: cfg, DB: db, Bus: eventbus.New(), Sec: Sec(o.KeyIdx), Ipfs: o.Ipfs}
	var err error
	if r.App, err = appstate.NewAppState(db, r.Bus); err != nil {
		return nil, err
	}
	if !KeepAppConfig {
		validation.SetAppConfig(cfg)
	}
	r.Pool = mempool.NewTxPool(r.App, r.Bus, cfg, collector.NewStatsCollector())
	r.Offline = blockchain.NewOfflineDetector(cfg, db, r.App, r.Sec, r.Bus)
	keyMu.Lock()
	if keystore_ == nil {
		keystore_ = keystore.NewKeyStore("./testdata", keystore.StandardScryptN, keystore.StandardScryptP)
		subs_, _ = subscriptions.NewManager("./testdata2")
	}
	keyMu.Unlock()
	r.Upgrader = upgrade.NewUpgrader(cfg, r.App, db)
	r.Chain = blockchain.NewBlockchain(cfg, db, r.Pool, r.App, r.Ipfs, r.Sec, r.Bus, r.Offline, keystore_, subs_, r.Upgrader)
	if o.WithCeremony {
		r.KeysPool = mempool.NewKeysPool(db, r.App, r.Bus, r.Sec)
		r.Flipper = flip.NewFlipper(db, r.Ipfs, r.KeysPool, r.Pool, r.Sec, r.App, r.Bus)
		r.Ceremony = ceremony.NewValidationCeremony(r.App, r.Bus, r.Flipper, r.Sec, db, r.Pool, r.Chain, noSync{}, r.KeysPool, cfg)
	}
	// StartWithHeight sequence
	blockchain.VerifGenesisEdit = GenesisEdits[o.GenesisEdit]
	if err := r.Chain.InitializeChain(); err != nil {
		return nil, fmt.Errorf("InitializeChain: %w", err)
	}
	if err := r.App.Initialize(r.Chain.Head.Height()); err != nil {
		if err := r.App.Initialize(0); err != nil {
			return nil, fmt.Errorf("appState.Initialize: %w", err)
		}
	}
	if err := r.Chain.EnsureIntegrity(); err != nil {
		return nil, fmt.Errorf("EnsureIntegrity: %w", err)
	}
	r.Pool.Initialize(r.Chain.Head, r.Sec.GetAddress(), false)
	if o.WithCeremony {
		r.KeysPool.Initialize(r.Chain.Head)
		r.Flipper.Initialize()
		r.Ceremony.Initialize(r.Chain.GetBlock(r.Chain.Head.Hash()))
		r.Chain.ProvideApplyNewEpochFunc(r.Ceremony.ApplyNewEpoch)
	}
	return r, nil
}

// Activate makes this replica the one the process-global validation config refers to.
func (r *Replica) Activate() {
	if !KeepAppConfig {
		validation.SetAppConfig(r.Cfg)
	}
}

// KeepAppConfig freezes the process-global validation config (free-running race passes build
// replicas while goroutines of earlier replicas may still read it; all replicas of such a pass
// use the same consensus configuration).
var KeepAppConfig bool

// ---------------------------------------------------------------- db images

type KV struct{ K, V []byte }
type Image []KV

func Snapshot(db dbm.DB) Image {
	it, err := db.Iterator(nil, nil)
	if err != nil {
		panic(err)
	}
	defer it.Close()
	var img Image
	for ; it.Valid(); it.Next() {
		k := append([]byte{}, it.Key()...)
		v := append([]byte{}, it.Value()...)
		img = append(img, KV{k, v})
	}
	return img
}

func (img Image) NewDB() *dbm.MemDB {
	d := dbm.NewMemDB()
	for _, kv := range img {
		d.Set(kv.K, kv.V)
	}
	return d
}

func (img Image) Hash() common.Hash {
	var buf []byte
	for _, kv := range img {
		buf = append(buf, common.ToBytes(uint32(len(kv.K)))...)
		buf = append(buf, kv.K...)
		buf = append(buf, common.ToBytes(uint32(len(kv.V)))...)
		buf = append(buf, kv.V...)
	}
	return crypto.Keccak256Hash(buf)
}

// Diff lists keys that differ between two images (for diagnostics).
func (img Image) Diff(o Image) []string {
	a := map[string]string{}
	for _, kv := range img {
		a[string(kv.K)] = string(kv.V)
	}
	var out []string
	for _, kv := range o {
		if v, ok := a[string(kv.K)]; !ok {
			out = append(out, fmt.Sprintf("+%x", kv.K))
		} else if v != string(kv.V) {
			out = append(out, fmt.Sprintf("~%x", kv.K))
		}
		delete(a, string(kv.K))
	}
	for k := range a {
		out = append(out, fmt.Sprintf("-%x", []byte(k)))
	}
	sort.Strings(out)
	return out
}

// Restart builds a fresh replica with the same options on a copy of the current image.
func (r *Replica) Restart() (*Replica, error) {
	return New(r.Opts, Snapshot(r.DB).NewDB())
}

// Fork builds a replica with another node key on a copy of the current image.
func (r *Replica) Fork(keyIdx int) (*Replica, error) {
	o := r.Opts
	o.KeyIdx = keyIdx
	return New(o, Snapshot(r.DB).NewDB())
}

// ---------------------------------------------------------------- stepping

func SetTime(unix int64) { verifhook.SetNow(time.Unix(unix, 0)) }

// Propose builds a block on the head at virtual time `now` (0 = head time + 20s).
func (r *Replica) Propose(now int64) *types.Block {
	r.Activate()
	if now == 0 {
		now = r.Chain.Head.Time() + 20
	}
	SetTime(now)
	return r.Chain.ProposeBlock([]byte{}).Block
}

func (r *Replica) Empty() *types.Block {
	r.Activate()
	return r.Chain.GenerateEmptyBlock()
}

// Add validates and inserts a block the way the consensus engine does.
func (r *Replica) Add(b *types.Block) error {
	r.Activate()
	if now := b.Header.Time(); verifhook.Now().Unix() < now {
		SetTime(now)
	}
	return r.Chain.AddBlock(b, nil, collector.NewStatsCollector())
}

// SelfCert writes a single-vote certificate signed by key idx (god-mode chains).
func (r *Replica) SelfCert(b *types.Block, keyIdx int) *types.BlockCert {
	vote := &types.Vote{Header: &types.VoteHeader{Round: b.Height(), Step: 1, ParentHash: b.Header.ParentHash(), VotedHash: b.Header.Hash()}}
	h := crypto.SignatureHash(vote)
	vote.Signature = Sec(keyIdx).Sign(h[:])
	cert := types.FullBlockCert{Votes: []*types.Vote{vote}}
	c := cert.Compress()
	r.Chain.WriteCertificate(b.Header.Hash(), c, true)
	return c
}

// ---------------------------------------------------------------- tx building

type TxSpec struct {
	From    int
	To      *common.Address
	Type    types.TxType
	Amount  *big.Int
	MaxFee  *big.Int
	Tips    *big.Int
	Nonce   uint32 // 0 = next by committed state
	Epoch   *uint16
	Payload []byte
}

func (r *Replica) BuildTx(s TxSpec) *types.Transaction {
	st := r.App.State
	from := Addr(s.From)
	tx := &types.Transaction{Type: s.Type, To: s.To, Amount: s.Amount, MaxFee: s.MaxFee, Tips: s.Tips, Payload: s.Payload}
	if s.Epoch != nil {
		tx.Epoch = *s.Epoch
	} else {
		tx.Epoch = st.Epoch()
	}
	if s.Nonce != 0 {
		tx.AccountNonce = s.Nonce
	} else {
		n := st.GetNonce(from)
		if st.GetEpoch(from) < tx.Epoch {
			n = 0
		}
		tx.AccountNonce = n + 1
	}
	if tx.MaxFee == nil {
		tx.MaxFee = new(big.Int).Mul(common.DnaBase, big.NewInt(10))
	}
	signed, err := types.SignTx(tx, Key(s.From))
	if err != nil {
		panic(err)
	}
	return signed
}

func Dna(n int64) *big.Int { return new(big.Int).Mul(common.DnaBase, big.NewInt(n)) }
