// C09 — a crash at any point leaves a node that restarts into a consistent chain.
//
// Fault enumeration: for every block insertion (and every fork switch) of an explored
// history the write log of the real operation is recorded on a logging database; for EVERY
// prefix of that log (batches atomic) the surviving image is restarted through the normal
// start-up sequence and must continue to the reference chain.
package main

import (
	"os"
	"fmt"
	"runtime/debug"

	"github.com/idena-network/idena-go/blockchain/types"
	"verif/mc/chainmc"
	"verif/mc/fsync"
	"verif/mc/chainprop"
	"verif/mc/crashdb"
	"verif/mc/replica"
	"verif/mc/report"
	"verif/mc/world"
)

// recover starts a node on the surviving db and checks it against the reference replica ref
// (which holds the canonical chain up to `top`) .
func recoverAndCheck(c *chainmc.Ctx, o replica.Opts, db *crashdb.DB, img replica.Image, k int, what string, ref *replica.Replica, interrupted uint64, lowest uint64) bool {
	n := len(db.Log)
	surv := crashdb.Apply(img, db.Log, k)
	o.Ipfs = world.Net
	replica.SetTime(ref.Chain.Head.Time() + 1)
	var rec *replica.Replica
	var err error
	func() {
		defer func() {
			if p := recover(); p != nil {
				st := string(debug.Stack())
				if len(st) > 5000 {
					st = st[:5000]
				}
				err = fmt.Errorf("PANIC during start-up: %v\n%s", p, st)
			}
		}()
		rec, err = replica.New(o, surv)
	}()
	c.Count("crash_points", 1)
	tag := fmt.Sprintf("%s, crash after write %d of %d", what, k, n)
	if err != nil {
		c.Violation("startup-fails:"+chainprop.ErrClass(err), fmt.Sprintf("%s: the start-up sequence fails on the surviving database: %v", tag, err), map[string]interface{}{"k": k, "n": n})
		return false
	}
	if rec.Chain.Head.Root() != rec.App.State.Root() || rec.Chain.Head.IdentityRoot() != rec.App.IdentityState.Root() {
		c.Violation("head-roots-mismatch", fmt.Sprintf("%s: after restart the head's roots differ from the loaded trees", tag), map[string]interface{}{"k": k, "n": n})
		return false
	}
	h := rec.Chain.Head.Height()
	if h > interrupted || h < lowest {
		c.Violation("head-out-of-range", fmt.Sprintf("%s: restarted head %d outside [%d,%d]", tag, h, lowest, interrupted), map[string]interface{}{"k": k, "n": n})
		return false
	}
	c.Outcome(fmt.Sprintf("restarted at interrupted-%d", interrupted-h))
	// is the restarted head on the reference chain?
	if rb := ref.Chain.GetBlockHeaderByHeight(h); rb == nil || rb.Hash() != rec.Chain.Head.Hash() {
		// allowed only for fork switches interrupted before the rollback completed: the caller passes
		// a reference for the old branch then; here it is a violation
		c.Violation("head-not-on-reference-chain", fmt.Sprintf("%s: restarted head %d is not a block of the reference chain", tag, h), map[string]interface{}{"k": k, "n": n})
		return false
	}
	for hh := h + 1; hh <= ref.Chain.Head.Height(); hh++ {
		blk := ref.Chain.GetBlockByHeight(hh)
		if blk == nil {
			panic("reference block missing")
		}
		var aerr error
		func() {
			defer func() {
				if p := recover(); p != nil {
					aerr = fmt.Errorf("PANIC: %v", p)
				}
			}()
			aerr = rec.Add(blk)
		}()
		if aerr != nil {
			c.Violation("restarted-node-rejects-next-block:"+chainprop.ErrClass(aerr), fmt.Sprintf("%s: restarted node (head %d) rejects canonical block %d: %v", tag, h, hh, aerr), map[string]interface{}{"k": k, "n": n})
			return false
		}
	}
	if rec.Chain.Head.Hash() != ref.Chain.Head.Hash() || rec.App.State.Root() != ref.App.State.Root() || rec.App.IdentityState.Root() != ref.App.IdentityState.Root() {
		c.Violation("restarted-node-diverges", fmt.Sprintf("%s: after catching up the restarted node's head/roots differ from the reference", tag), map[string]interface{}{"k": k, "n": n})
		return false
	}
	// stored indexes of the restarted node equal the reference's (no holes left by the crash)
	for hh := uint64(1); hh <= ref.Chain.Head.Height(); hh++ {
		a, b := rec.Chain.GetBlockHeaderByHeight(hh), ref.Chain.GetBlockHeaderByHeight(hh)
		if (a == nil) != (b == nil) || a != nil && a.Hash() != b.Hash() {
			c.Violation("canonical-index-hole", fmt.Sprintf("%s: after restart and catch-up the canonical index at height %d differs from the reference (present=%v)", tag, hh, a != nil), map[string]interface{}{"k": k, "n": n})
			return false
		}
		da, db2 := rec.Chain.GetIdentityDiff(hh), ref.Chain.GetIdentityDiff(hh)
		var ba, bb []byte
		if da != nil {
			ba, _ = da.ToBytes()
		}
		if db2 != nil {
			bb, _ = db2.ToBytes()
		}
		if string(ba) != string(bb) {
			c.Violation("identity-diff-index-differs", fmt.Sprintf("%s: after restart and catch-up the stored identity diff of height %d differs from the reference (%d vs %d bytes)", tag, hh, len(ba), len(bb)), map[string]interface{}{"k": k, "n": n})
			return false
		}
		if blk := ref.Chain.GetBlockByHeight(hh); blk != nil {
			for _, tx := range blk.Body.Transactions {
				if _, idx := rec.Chain.GetTx(tx.Hash()); idx == nil || idx.BlockHash != blk.Hash() {
					c.Violation("tx-index-hole", fmt.Sprintf("%s: after restart and catch-up tx %s of canonical block %d is not indexed", tag, tx.Hash().Hex()[:12], hh), map[string]interface{}{"k": k, "n": n})
					return false
				}
			}
		}
	}
	return true
}

func newModel(thorough bool) *chainprop.Model {
	m := &chainprop.Model{Menu: world.Menu()}
	m.Std()
	m.Scn, m.Opts, m.Prefix = m.Scn[1:], m.Opts[1:], m.Prefix[1:]
	// a long chain whose next blocks prune old tree versions (MaxSavedStatesCount = 100)
	lo := world.GenesisG2()
	lo.WithCeremony = true
	var lp [][]string
	for i := 0; i < 101; i++ {
		if i%10 == 3 {
			lp = append(lp, []string{"send X1->X2 1"})
		} else {
			lp = append(lp, []string{})
		}
	}
	m.Scn, m.Opts, m.Prefix = append(m.Scn, "G2-long(101 blocks, pruning edge)"), append(m.Opts, lo), append(m.Prefix, lp)
	add := func(names ...string) { m.Acts = append(m.Acts, m.Drive(names...)) }
	add()
	add("send X1->X2 1", "online V1", "online P")
	add("kill V2", "delegate D1->P")
	add("call contract0 transfer->X2 1 by owner X1", "deploy timelock X1 stake ok")
	add("invite G->NEW", "burn X1 5 key=k", "submitFlip V1 pair0")
	m.Acts = append(m.Acts,
		chainprop.Action{Name: "empty-block", Empty: true, Expand: true},
		chainprop.Action{Name: "run-ceremony-to-epoch-end", Macro: "epoch", Expand: true},
	)
	for _, n := range []int{1, 2} {
		for _, alt := range []string{"E", "PE"} {
			n, alt := n, alt
			m.Acts = append(m.Acts, chainprop.Action{Name: fmt.Sprintf("fork-switch drop=%d continue=%s", n, alt), Expand: true, Custom: func(t *chainprop.Trans) bool {
				return forkSwitch(t, n, alt)
			}})
		}
	}
	m.H.Inserted = func(t *chainprop.Trans) bool {
		c := t.C
		o := t.Opts
		o.KeyIdx = t.A.Opts.KeyIdx
		// record the write log of the real AddBlock on a logging db
		replica.SetTime(t.Now)
		cdb := crashdb.New(t.St.Img)
		o.Ipfs = world.Net
		R, err := replica.New(o, cdb)
		if err != nil {
			panic(err)
		}
		base := replica.Snapshot(cdb.MemDB)
		cdb.Log = nil
		if err := R.Add(t.Block); err != nil {
			c.Violation("logging-db-insert-differs", "the block inserts on a MemDB but not on the logging wrapper: "+err.Error(), nil)
			return false
		}
		c.Count("operations", 1)
		c.Count("log_entries", len(cdb.Log))
		// reference: the un-crashed node plus one follower block
		Fol, err := world.Open(t.Opts, replica.Snapshot(t.A.DB), t.Now+20)
		if err != nil {
			panic(err)
		}
		fb := Fol.Propose(t.Now + 20)
		if err := Fol.Add(fb); err != nil {
			panic(err)
		}
		H := t.Block.Height()
		lowest := uint64(1)
		if H > 101 {
			lowest = H - 101
		}
		what := fmt.Sprintf("AddBlock(height %d, flags %d, %d txs)", H, t.Block.Header.Flags(), len(t.Block.Body.Transactions))
		for k := 0; k <= len(cdb.Log); k++ {
			if !recoverAndCheck(c, o, cdb, base, k, what, Fol, H, lowest) {
				return false
			}
		}
		// clean restart at the block boundary changes nothing observable
		rs, err := world.OpenAs(t.Opts, replica.Snapshot(t.A.DB), t.Now, t.A.Opts.KeyIdx)
		if err != nil {
			c.Violation("clean-restart-fails", err.Error(), nil)
			return false
		}
		if world.StateKey(rs, t.Now) != world.StateKey(t.A, t.Now) || world.SharedImage(replica.Snapshot(rs.DB)).Hash() != world.SharedImage(replica.Snapshot(t.A.DB)).Hash() {
			c.Violation("clean-restart-changes-state", "a clean restart at a block boundary changes the observable state or the database", nil)
			return false
		}
		c.Sample(map[string]interface{}{"scenario": t.M.Scn[t.Scn], "trace": c.Labels(), "operation": what, "crash_points": len(cdb.Log) + 1})
		return true
	}
	return m
}

// forkSwitch: the real ResetTo + AddBlock sequence of applyFork, crash-enumerated.
func forkSwitch(t *chainprop.Trans, n int, alt string) bool {
	c := t.C
	head := t.A.Chain.Head.Height()
	if head < uint64(n)+2 {
		return false
	}
	target := head - uint64(n)
	// build the fork blocks on a scratch replica at the ancestor
	S, err := world.OpenAs(t.Opts, t.St.Img, t.St.Now, t.A.Opts.KeyIdx)
	if err != nil {
		return false
	}
	if _, err := S.Chain.ResetTo(target); err != nil {
		return false
	}
	now := S.Chain.Head.Time()
	var fork []*types.Block
	for i := 0; i < len(alt); i++ {
		now += 21
		var blk *types.Block
		if alt[i] == 'E' {
			blk = S.Empty()
		} else {
			r, err := world.Open(t.Opts, replica.Snapshot(S.DB), now)
			if err != nil {
				return false
			}
			S = r
			blk = S.Propose(now)
		}
		if err := S.Add(blk); err != nil {
			return false
		}
		fork = append(fork, blk)
	}
	if now > t.Now {
		t.Now = now
	}
	// the switching node on a logging db
	o := t.Opts
	o.KeyIdx = t.A.Opts.KeyIdx
	o.Ipfs = world.Net
	replica.SetTime(t.Now)
	cdb := crashdb.New(t.St.Img)
	R, err := replica.New(o, cdb)
	if err != nil {
		panic(err)
	}
	base := replica.Snapshot(cdb.MemDB)
	cdb.Log = nil
	if _, err := R.Chain.ResetTo(target); err != nil {
		return false
	}
	for _, b := range fork {
		if err := R.Add(b); err != nil {
			c.Violation("fork-switch-fails", "ResetTo + AddBlock of a valid fork fails: "+err.Error(), nil)
			return false
		}
	}
	// successor state = the switched node (plain MemDB copy)
	t.A, err = world.OpenAs(t.Opts, replica.Snapshot(cdb.MemDB), t.Now, o.KeyIdx)
	if err != nil {
		c.Violation("restart-after-fork-switch-fails", err.Error(), nil)
		return false
	}
	t.NextAux["keyx"] = fmt.Sprintf(" switched-at=%d", target)
	if !c.Check {
		return true
	}
	c.Count("operations", 1)
	c.Count("fork_switches", 1)
	c.Count("log_entries", len(cdb.Log))
	Fol, err := world.Open(t.Opts, replica.Snapshot(t.A.DB), t.Now+20)
	if err != nil {
		panic(err)
	}
	fb := Fol.Propose(t.Now + 20)
	if err := Fol.Add(fb); err != nil {
		panic(err)
	}
	// old-branch reference: the un-switched node plus one follower block (a node that crashed before the
	// rollback became visible stays on its branch and must be able to continue there)
	Old, err := world.Open(t.Opts, t.St.Img, t.Now+20)
	if err != nil {
		panic(err)
	}
	ofb := Old.Propose(t.Now + 20)
	if err := Old.Add(ofb); err != nil {
		panic(err)
	}
	oldHead := Old.Chain.Head.Height() - 1
	what := fmt.Sprintf("fork switch (ResetTo %d, then %d fork blocks)", target, len(fork))
	for k := 0; k <= len(cdb.Log); k++ {
		// a crash before the rollback became visible leaves the node on the old branch: equally consistent
		surv := crashdb.Apply(base, cdb.Log, k)
		probe, perr := replica.New(o, surv)
		ref := Fol
		top := Fol.Chain.Head.Height()
		if perr == nil {
			ph := probe.Chain.Head
			if ob := Old.Chain.GetBlockHeaderByHeight(ph.Height()); ob != nil && ob.Hash() == ph.Hash() && ph.Height() > target {
				ref = Old
				top = oldHead
			}
		}
		lowest := uint64(1)
		if top > 102 {
			lowest = top - 102
		}
		if !recoverAndCheck(c, o, cdb, base, k, what, ref, top, lowest) {
			return false
		}
	}
	c.Sample(map[string]interface{}{"scenario": t.M.Scn[t.Scn], "trace": c.Labels(), "operation": what, "crash_points": len(cdb.Log) + 1})
	return true
}

func main() {
	run := report.New("C09")
	m := newModel(run.Thorough())
	if chainmc.IsWorker() {
		chainmc.WorkerMain(m)
		return
	}
	if run.Replay != "" {
		chainmc.ReplayFile(run, m)
		return
	}
	run.SetBudget(6*60e9, 20*60e9)
	depth := 3
	if run.Thorough() {
		depth = 4
	}
	if os.Getenv("VERIF_C09_ONLY") != "fastsync" { // (debugging aid; evidence then says so)
		chainmc.Explore(run, m, chainmc.Config{Depth: depth, Chunk: 2})
	} else {
		run.Cap("part 1 skipped (VERIF_C09_ONLY=fastsync)")
	}
	fsync.Part(run, true)
	run.Set("evaluations", run.Get("crash_points"))
	run.Set("distinct_nontrivial", run.Get("operations"))
	run.Assume = append(run.Assume,
		"crash model: every prefix of the write log with batches atomic (goleveldb journal semantics); torn single writes and reordering below LevelDB are out of scope",
		"the fast sync of part 2 performs the call sequence of protocol/fast.go against a source replica (no peers, no snapshot download: the source's WriteSnapshot2 output is imported directly); god-only network, certificates signed by the god")
	run.Finish("fault_enumeration", "for every AddBlock of every explored history (BFS over 11 actions incl. contract receipts, identity updates, snapshot blocks, the epoch macro, 4 fork-switch actions; 4 scenarios incl. a 101-block chain at the version-pruning edge) the write log of the real operation is recorded and EVERY prefix is crash-tested: normal start-up on the surviving image, head roots == loaded trees, head within the retained window and on the reference chain, catch-up to the reference head and roots; plus clean restart == no change. Part 2: every prefix of the write log of a whole fast sync (header and identity-diff replay onto the preliminary copies, snapshot import, AtomicSwitchToPreliminary, deletion of the old state databases) for 3 source chains x every snapshot height x 3 follower heights: restart, head is the old head or the snapshot height, roots match, catch-up with full blocks to the source head")
}
