// C14 — the mempool stays coherent under any submission, block and rebuild order.
//
// Part 1 (this file): breadth-first search over operation histories on one long-lived real
// replica (TxPool + Blockchain + AppState + ceremony): external / internal submissions in
// and out of nonce order, two epochs, competing same-nonce transactions, a draining
// transaction, fat transactions (gas cap), priority ceremony transactions, blocks built
// from the pool, foreign blocks that consume nonces with other transactions, empty blocks,
// phase jumps up to the epoch switch, sync start/stop. Tiny per-address and global limits.
// After every operation the pool's indexes, lookups and the candidate list are checked.
//
// Part 2 (conc.go): controlled-scheduler DFS over the same operations run by the node's
// real thread roles, plus a free-running -race pass.
package main

import (
	"encoding/json"
	"fmt"
	"os"
	"sort"
	"strconv"
	"strings"

	"github.com/idena-network/idena-go/blockchain/fee"
	"github.com/idena-network/idena-go/blockchain/types"
	"github.com/idena-network/idena-go/blockchain/validation"
	"github.com/idena-network/idena-go/common"
	"github.com/idena-network/idena-go/config"
	"github.com/idena-network/idena-go/core/state"
	"github.com/pkg/errors"
	"verif/mc/chainmc"
	"verif/mc/replica"
	"verif/mc/report"
	"verif/mc/shard"
	"verif/mc/world"
)

// ---------------------------------------------------------------- scenarios

type scen struct {
	Name   string
	Opts   replica.Opts
	Prefix []string // ops run before the search starts (checked too, in Init of worker 0 only implicitly)
	Ops    []string
}

func smallPool() *config.Mempool {
	m := config.GetDefaultMempoolConfig()
	m.TxPoolAddrExecutableLimit = 2
	m.TxPoolAddrQueueLimit = 2
	m.TxPoolExecutableSlots = 3
	m.TxPoolQueueSlots = 2
	return m
}

func scenarios(thorough bool) []scen {
	plain := world.GenesisG2()
	plain.WithCeremony = true
	plain.Mempool = smallPool()

	fat := world.GenesisG2()
	fat.WithCeremony = true
	fat.Mempool = smallPool()
	fat.Mempool.TxPoolAddrExecutableLimit = 3

	cer := world.GenesisG2()
	cer.WithCeremony = true
	cer.FirstCeremonyTime = world.T0 + 400
	a := cer.Alloc[world.A(world.G)]
	a.State = 3 // Verified
	a.Stake = replica.Dna(500)
	a.Balance = replica.Dna(200000) // (pays for fat transactions in the long session)
	cer.Alloc[world.A(world.G)] = a
	cer.Mempool = smallPool()
	cer.Mempool.TxPoolAddrExecutableLimit = 3

	plainOps := []string{
		"ext X1 n1a", "ext X1 n1b", "ext X1 n2a", "ext X1 n3a", "ext X1 n4a", "ext X1 e1n1", "ext X1 e1n2",
		"ext X2 n1a", "ext X2 n2a", "ext X2 n3a", "ext X2 drain",
		"ext V1 n1a", "ext V2 n1a",
		"int G n1a", "int G n2a",
		"block", "empty", "foreign X1:n1b", "foreign X1:n1a&X1:n2a", "foreign X2:drain",
		"startsync", "stopsync",
	}
	fatOps := []string{
		"ext X1 fat1", "ext X1 fat2", "ext X2 fat1", "ext X2 fat2", "ext X2 huge", "ext X1 n3a", "ext V1 n1a",
		"block", "foreign X1:fat1",
	}
	cerOps := []string{
		"ext X1 n1a", "ext X1 n2a", "ext X1 e1n1", "ext X2 n1a",
		"int G n+1", "int G n+2",
		"int G cer:hash+1", "int G cer:short+1", "int G cer:short+2", "int G cer:long+1", "int G cer:long+2", "int G cer:evidence+1", "int G cer:evidence+3",
		"ext V1 cer:hash+1", "ext V1 cer:short+1",
		"block", "jump", "epoch", "foreign X1:n1a", "foreign G:n+1", "startsync", "stopsync",
	}
	s := []scen{
		{Name: "plain(G2, limits 2/2/3/2)", Opts: plain, Ops: plainOps},
		{Name: "fat(G2, gas cap)", Opts: fat, Ops: fatOps},
		{Name: "ceremony(before flip lottery)", Opts: cer, Prefix: []string{"int G flip0", "block", "int G flip1", "block", "int G flip2", "block"}, Ops: cerOps},
		{Name: "ceremony(short session)", Opts: cer, Prefix: []string{"int G flip0", "block", "int G flip1", "block", "int G flip2", "block", "jump", "jump"}, Ops: cerOps},
		{Name: "ceremony(long session, G answered)", Opts: cer, Prefix: []string{"int G flip0", "block", "int G flip1", "block", "int G flip2", "block", "jump", "jump", "int G cer:hash+1", "block", "jump"}, Ops: cerOps},
		{Name: "ceremony(long session): fat predecessors of a priority tx", Opts: cer, Prefix: []string{"int G flip0", "block", "int G flip1", "block", "int G flip2", "block", "jump", "jump", "int G cer:hash+1", "block", "jump"},
			Ops: []string{"int G fat+1", "int G fat+2", "int G fat+3", "int G cer:short+4", "int G cer:short+3", "int G cer:long+4", "ext X1 n1a", "block"}},
		{Name: "ceremony(after long session)", Opts: cer, Prefix: []string{"int G flip0", "block", "int G flip1", "block", "int G flip2", "block", "jump", "jump", "int G cer:hash+1", "block", "jump", "int G cer:short+1", "int G cer:long+2", "block", "jump"}, Ops: cerOps},
	}
	return s
}

// ---------------------------------------------------------------- execution of one history

type exec struct {
	sc       *scen
	r        *replica.Replica
	now      int64
	syncing  bool
	e0       uint16            // epoch at genesis
	deferred []string          // labels handed to the pool while syncing (mirror of the deferred queue)
	labels   map[common.Hash]string
	c        *chainmc.Ctx
	check    bool
	collect  *collectCtx // part 2: violations are collected instead of reported
}

func actor(name string) int {
	for i, n := range world.ActorNames {
		if n == name {
			return i
		}
	}
	panic("actor " + name)
}

var fatPayload = make([]byte, 150*1024)
var hugePayload = make([]byte, 600*1024)
var fat170 = make([]byte, 170*1024)

// fixedTx builds the menu transaction `what` of `from`; absolute nonces, fixed fees => the
// same label always denotes the same signed transaction.
func (x *exec) fixedTx(from int, what string) *types.Transaction {
	sp := replica.TxSpec{From: from, Type: types.SendTx, To: world.PA(world.Z), MaxFee: replica.Dna(100)}
	ep := x.e0
	amount := int64(1)
	switch {
	case what == "drain":
		sp.Nonce = 1
		sp.Amount = replica.Dna(19900) // leaves < 101 DNA: every later X2 menu tx (cost 1+100) becomes unaffordable
		amount = 0
	case strings.HasPrefix(what, "fat"):
		n, _ := strconv.Atoi(what[3:])
		sp.Nonce = uint32(n)
		sp.Payload = fatPayload
		sp.MaxFee = replica.Dna(4000)
	case what == "huge":
		sp.Nonce = 1
		sp.Payload = hugePayload
		sp.MaxFee = replica.Dna(15000)
		amount = 2
	case strings.HasPrefix(what, "e1n"):
		n, _ := strconv.Atoi(what[3:])
		sp.Nonce = uint32(n)
		ep = x.e0 + 1
	case strings.HasPrefix(what, "flip"):
		return nil
	case what[0] == 'n':
		n, _ := strconv.Atoi(what[1 : len(what)-1])
		sp.Nonce = uint32(n)
		if what[len(what)-1] == 'b' {
			amount = 2
		}
	default:
		panic("tx " + what)
	}
	if amount > 0 {
		sp.Amount = replica.Dna(amount)
	}
	sp.Epoch = &ep
	return x.r.BuildTx(sp)
}

// relTx builds a state-relative transaction: "n+<d>" (send), "flip<k>", "cer:<kind>+<d>".
func (x *exec) relTx(from int, what string) *types.Transaction {
	b := world.NewB(x.r)
	st := x.r.App.State
	base := st.GetNonce(world.A(from))
	if st.GetEpoch(world.A(from)) < st.Epoch() {
		base = 0
	}
	switch {
	case strings.HasPrefix(what, "flip"):
		t := world.Dyn("submitFlip " + world.ActorNames[from] + " " + what[4:])
		return t.Build(b)
	case strings.HasPrefix(what, "fat+"): // a 170 KB transfer: three of them outweigh the block gas cap
		d, _ := strconv.Atoi(what[4:])
		b.SetNext(from, base+uint32(d))
		return b.Tx(world.Spec{From: from, Type: types.SendTx, To: world.PA(world.Z), Amount: replica.Dna(1), Payload: fat170, MaxFee: replica.Dna(6000)})
	case strings.HasPrefix(what, "n+"):
		d, _ := strconv.Atoi(what[2:])
		b.SetNext(from, base+uint32(d))
		return b.Tx(world.Spec{From: from, Type: types.SendTx, To: world.PA(world.Z), Amount: replica.Dna(1), MaxFee: replica.Dna(100)})
	case strings.HasPrefix(what, "cer:"):
		i := strings.Index(what, "+")
		d, _ := strconv.Atoi(what[i+1:])
		b.SetNext(from, base+uint32(d))
		pat := "good"
		if what[4:i] == "evidence" {
			pat = "all"
		}
		return world.CerTx(what[4:i], from, pat)(b)
	}
	return nil
}

func (x *exec) tx(from int, what string) *types.Transaction {
	if strings.Contains(what, "+") || strings.HasPrefix(what, "flip") {
		return x.relTx(from, what)
	}
	return x.fixedTx(from, what)
}

func (x *exec) addBlock(b *types.Block, viaPool bool) bool {
	pre := x.snapshotPool()
	if err := x.r.Add(b); err != nil {
		x.viol("block-rejected", fmt.Sprintf("the node cannot insert a block it built: %v", err))
		return false
	}
	x.afterBlocks(pre, []*types.Block{b}, !x.syncing)
	return true
}

// run executes one operation; false = not enabled in this state.
func (x *exec) run(op string) bool {
	f := strings.Fields(op)
	x.r.Activate()
	replica.SetTime(x.now)
	switch f[0] {
	case "ext", "int":
		from := actor(f[1])
		if f[0] == "int" && from != x.r.Opts.KeyIdx {
			return false
		}
		tx := x.tx(from, f[2])
		if tx == nil {
			return false
		}
		x.labels[tx.Hash()] = f[1] + ":" + f[2]
		pre := x.snapshotPool()
		var err error
		if f[0] == "ext" {
			err = x.r.Pool.AddExternalTxs(validation.InboundTx, tx)
		} else {
			err = x.r.Pool.AddInternalTx(tx)
		}
		if x.syncing && !(from == x.r.Opts.KeyIdx) {
			x.deferred = append(x.deferred, f[1]+":"+f[2])
		}
		post := x.snapshotPool()
		x.count("submissions", 1)
		if err == nil && !x.syncing {
			x.count("admitted", 1)
			if !post.has[tx.Hash()] {
				x.viol("accepted-not-retrievable", fmt.Sprintf("%s was accepted (nil error) but is not in the pool", x.labels[tx.Hash()]))
			}
		}
		if err != nil && post.has[tx.Hash()] && !pre.has[tx.Hash()] {
			x.viol("rejected-but-stored", fmt.Sprintf("%s was rejected (%v) but is in the pool", x.labels[tx.Hash()], err))
		}
		for h := range pre.has {
			if !post.has[h] {
				x.viol("submission-evicts", fmt.Sprintf("submitting %s removed %s from the pool", x.labels[tx.Hash()], x.labels[h]))
			}
		}
		if x.check {
			cls := "admitted"
			if err != nil {
				cls = "rejected:" + errClass(err)
			} else if x.syncing && from != x.r.Opts.KeyIdx {
				cls = "deferred"
			} else if _, ok := post.pending[tx.Hash()]; ok {
				cls = "admitted-pending"
			}
			x.c.Outcome(cls)
		}
	case "block", "jump":
		t := x.now + 20
		if h := x.r.Chain.Head.Time() + 20; h > t {
			t = h
		}
		if f[0] == "jump" {
			nb := world.NextBoundary(x.r, t)
			if nb == 0 || nb > x.now+864000 {
				return false
			}
			t = nb + 1
		}
		x.now = t
		cand := x.r.Pool.BuildBlockTransactions()
		b := x.r.Propose(t)
		x.count("blocks_from_pool", 1)
		x.count("txs_included", len(b.Body.Transactions))
		if x.check {
			x.c.Outcome(fmt.Sprintf("block: candidates=%d included=%d", len(cand), len(b.Body.Transactions)))
		}
		if !x.addBlock(b, true) {
			return false
		}
	case "epoch":
		// blocks from the pool until the validation-finishing block is in
		if x.r.App.State.ValidationPeriod() != state.AfterLongSessionPeriod {
			return false
		}
		done := false
		for i := 0; i < 24 && !done; i++ {
			x.now += 20
			if h := x.r.Chain.Head.Time() + 20; h > x.now {
				x.now = h
			}
			b := x.r.Propose(x.now)
			if !x.addBlock(b, true) {
				return false
			}
			x.invariants()
			done = b.Header.Flags().HasFlag(types.ValidationFinished)
		}
		if !done {
			return false
		}
		x.count("epoch_switches", 1)
	case "empty":
		x.now += 20
		if h := x.r.Chain.Head.Time() + 20; h > x.now {
			x.now = h
		}
		replica.SetTime(x.now)
		if !x.addBlock(x.r.Empty(), false) {
			return false
		}
	case "foreign":
		var txs []*types.Transaction
		for _, p := range strings.Split(f[1], "&") {
			q := strings.SplitN(p, ":", 2)
			tx := x.tx(actor(q[0]), q[1])
			if tx == nil {
				return false
			}
			x.labels[tx.Hash()] = p
			txs = append(txs, tx)
		}
		x.now += 20
		if h := x.r.Chain.Head.Time() + 20; h > x.now {
			x.now = h
		}
		replica.SetTime(x.now)
		b := x.r.Chain.VerifProposeBlockWithTxs([]byte{}, txs).Block
		if len(b.Body.Transactions) == 0 {
			return false
		}
		x.count("foreign_blocks", 1)
		if !x.addBlock(b, false) {
			return false
		}
	case "startsync":
		if x.syncing {
			return false
		}
		x.r.Chain.StartSync()
		x.syncing = true
	case "stopsync":
		if !x.syncing {
			return false
		}
		pre := x.snapshotPool()
		x.r.Chain.StopSync()
		x.syncing = false
		x.deferred = nil
		x.afterBlocks(pre, nil, true)
	default:
		panic("op " + op)
	}
	if os.Getenv("VERIF_C14_DEBUG") != "" {
		d := x.r.Pool.VerifDump()
		fmt.Fprintf(os.Stderr, "DEBUG after %q: head=%d epoch=%d period=%d\n", op, x.r.Chain.Head.Height(), x.r.App.State.Epoch(), x.r.App.State.ValidationPeriod())
		for a, l := range d.Executable {
			fmt.Fprintf(os.Stderr, "DEBUG   exec %s (state nonce %d epoch %d):", a.Hex()[:8], x.r.App.State.GetNonce(a), x.r.App.State.GetEpoch(a))
			for _, tx := range l {
				fmt.Fprintf(os.Stderr, " %s[n=%d e=%d t=%d]", x.lbl(tx), tx.AccountNonce, tx.Epoch, tx.Type)
			}
			fmt.Fprintln(os.Stderr)
		}
		for a, l := range d.Pending {
			fmt.Fprintf(os.Stderr, "DEBUG   pend %s:", a.Hex()[:8])
			for _, tx := range l {
				fmt.Fprintf(os.Stderr, " %s[n=%d e=%d t=%d]", x.lbl(tx), tx.AccountNonce, tx.Epoch, tx.Type)
			}
			fmt.Fprintln(os.Stderr)
		}
	}
	x.invariants()
	return true
}

func errClass(err error) string {
	s := errors.Cause(err).Error()
	if i := strings.Index(s, ":"); i > 0 {
		s = s[:i]
	}
	if i := strings.Index(s, "["); i > 0 {
		s = s[:i]
	}
	return s
}

func (x *exec) viol(key, what string) {
	if x.collect != nil {
		x.collect.v = append(x.collect.v, [2]string{key, what})
		return
	}
	if x.check {
		x.c.Violation(key, what, nil)
	}
}
func (x *exec) count(k string, n int) {
	if x.check {
		x.c.Count(k, n)
	}
}

// ---------------------------------------------------------------- pool observation

type poolSnap struct {
	has     map[common.Hash]bool
	txs     map[common.Hash]*types.Transaction
	pending map[common.Hash]bool
	key     string
}

func (x *exec) snapshotPool() *poolSnap {
	d := x.r.Pool.VerifDump()
	s := &poolSnap{has: map[common.Hash]bool{}, txs: map[common.Hash]*types.Transaction{}, pending: map[common.Hash]bool{}}
	for _, tx := range d.All {
		s.has[tx.Hash()] = true
		s.txs[tx.Hash()] = tx
	}
	for _, l := range d.Pending {
		for _, tx := range l {
			s.pending[tx.Hash()] = true
		}
	}
	return s
}

func (x *exec) lbl(tx *types.Transaction) string {
	if l, ok := x.labels[tx.Hash()]; ok {
		return l
	}
	s, _ := types.Sender(tx)
	return fmt.Sprintf("%x/e%d/n%d/%x", s[:2], tx.Epoch, tx.AccountNonce, tx.Hash().Bytes()[:3])
}

// afterBlocks checks what a reset (new block / end of sync) did to the pool.
// pre: pool before; blocks: the blocks applied by this operation; reset: the pool was notified.
func (x *exec) afterBlocks(pre *poolSnap, blocks []*types.Block, reset bool) {
	post := x.snapshotPool()
	app := x.r.App
	ro, err := app.Readonly(x.r.Chain.Head.Height())
	if err != nil {
		x.viol("readonly-failed", err.Error())
		return
	}
	if !reset {
		for h := range pre.has {
			if !post.has[h] {
				x.viol("removed-while-syncing", fmt.Sprintf("%s left the pool although the pool is not reset while syncing", x.labels[h]))
			}
		}
		return
	}
	inBlock := map[common.Hash]bool{}
	for _, b := range blocks {
		for _, tx := range b.Body.Transactions {
			inBlock[tx.Hash()] = true
			// none of a block's transactions remain after that block is applied
			if post.has[tx.Hash()] || x.r.Pool.GetTx(tx.Hash()) != nil {
				x.viol("block-tx-remains", fmt.Sprintf("%s is in the applied block and still in the pool", x.lbl(tx)))
			}
		}
	}
	// every removal must have a cause
	global := ro.State.Epoch()
	minFee := fee.GetFeePerGasForNetwork(ro.ValidatorsCache.NetworkSize())
	type bad struct{ nonce uint32 }
	firstBad := map[common.Address]uint32{}
	verr := map[common.Hash]error{}
	for h, tx := range pre.txs {
		if tx.Epoch != global {
			continue
		}
		e := validation.ValidateTx(ro, tx, minFee, validation.MempoolTx)
		verr[h] = e
		if e != nil && errors.Cause(e) != validation.InvalidNonce {
			s, _ := types.Sender(tx)
			if n, ok := firstBad[s]; !ok || tx.AccountNonce < n {
				firstBad[s] = tx.AccountNonce
			}
		}
	}
	removed := 0
	for h, tx := range pre.txs {
		if post.has[h] {
			continue
		}
		removed++
		s, _ := types.Sender(tx)
		cause := ""
		switch {
		case inBlock[h]:
			cause = "included"
		case x.onChain(tx):
			cause = "included-earlier"
		case tx.Epoch < global:
			cause = "past-epoch"
		case tx.Epoch == global && verr[h] != nil:
			cause = "invalid:" + errClass(verr[h])
		default:
			if n, ok := firstBad[s]; ok && tx.Epoch == global && tx.AccountNonce >= n {
				cause = "after-invalid-nonce"
			}
		}
		if cause == "" {
			x.viol("dropped-without-cause", fmt.Sprintf("%s was accepted, is neither included nor invalid on the new head (epoch %d, sender nonce %d), but left the pool", x.lbl(tx), global, ro.State.GetNonce(s)))
		} else if x.check {
			x.c.Outcome("removed:" + cause)
		}
	}
	x.count("removals_justified", removed)
}

func (x *exec) onChain(tx *types.Transaction) bool {
	idx := x.r.Chain.GetTxIndex(tx.Hash())
	return idx != nil
}

// invariants checks the state of the pool after any operation.
func (x *exec) invariants() {
	pool := x.r.Pool
	d := pool.VerifDump()
	st := x.r.App.State
	global := st.Epoch()
	// index agreement
	where := map[common.Hash]int{}
	for s, l := range d.Executable {
		if len(l) == 0 {
			x.viol("empty-executable-entry", "an empty executable queue is kept for "+s.Hex())
		}
		for i, tx := range l {
			where[tx.Hash()]++
			snd, _ := types.Sender(tx)
			if snd != s {
				x.viol("executable-wrong-sender", x.lbl(tx)+" is filed under another sender")
			}
			// During the validation sessions (and while syncing) the pool does not re-validate its content on every
			// block: the statement tolerates entries with a consumed nonce or a past epoch there. Such a stale
			// entry may sit in front of live ones, so consecutiveness is demanded of the live entries only (the
			// list actually offered to a proposer is judged separately, always strictly).
			stale := func(t *types.Transaction) bool {
				if !(x.syncing || st.ValidationPeriod() > state.FlipLotteryPeriod) {
					return false
				}
				return t.Epoch < global || (t.Epoch == global && st.GetEpoch(s) == global && t.AccountNonce <= st.GetNonce(s))
			}
			prev := -1
			for j := i - 1; j >= 0; j-- {
				if !stale(l[j]) {
					prev = j
					break
				}
			}
			if prev >= 0 && !stale(tx) && (tx.AccountNonce != l[prev].AccountNonce+1 || tx.Epoch != l[prev].Epoch) {
				x.viol("executable-not-consecutive", fmt.Sprintf("executable queue of %s: %s follows %s", s.Hex()[:8], x.lbl(tx), x.lbl(l[prev])))
			}
		}
	}
	for s, l := range d.Pending {
		if len(l) == 0 {
			x.viol("empty-pending-entry", "an empty pending queue is kept for "+s.Hex())
		}
		for _, tx := range l {
			where[tx.Hash()]++
			snd, _ := types.Sender(tx)
			if snd != s {
				x.viol("pending-wrong-sender", x.lbl(tx)+" is filed under another sender")
			}
		}
	}
	for _, tx := range d.All {
		if where[tx.Hash()] != 1 {
			x.viol("index-disagree", fmt.Sprintf("%s is in the hash index but in %d queues", x.lbl(tx), where[tx.Hash()]))
		}
		delete(where, tx.Hash())
		// lookups
		if pool.GetTx(tx.Hash()) != tx {
			x.viol("lookup-by-hash", x.lbl(tx)+" is not returned by GetTx")
		}
		if e, _, _, ok := pool.Get(tx.Hash128()); !ok || e.(*types.Transaction) != tx {
			x.viol("lookup-by-short-hash", x.lbl(tx)+" is not returned by Get(hash128)")
		}
		snd, _ := types.Sender(tx)
		found := false
		for _, t := range pool.GetPendingByAddress(snd) {
			if t == tx {
				found = true
			}
		}
		if !found {
			x.viol("lookup-by-address", x.lbl(tx)+" is not returned by GetPendingByAddress")
		}
	}
	for h := range where {
		x.viol("index-disagree", fmt.Sprintf("%x is queued but not in the hash index", h[:4]))
	}
	if d.ShortCount != len(d.All) {
		x.viol("short-index-disagree", fmt.Sprintf("short-hash index holds %d entries, hash index %d", d.ShortCount, len(d.All)))
	}
	// no consumed nonce / past epoch outside the validation sessions
	if !x.syncing && st.ValidationPeriod() <= state.FlipLotteryPeriod {
		for _, tx := range d.All {
			snd, _ := types.Sender(tx)
			if tx.Epoch < global {
				x.viol("past-epoch-remains", fmt.Sprintf("%s has epoch %d < %d and is still in the pool (period %d)", x.lbl(tx), tx.Epoch, global, st.ValidationPeriod()))
			} else if tx.Epoch == global && st.GetEpoch(snd) == global && tx.AccountNonce <= st.GetNonce(snd) {
				x.viol("consumed-nonce-remains", fmt.Sprintf("%s has nonce %d <= committed %d and is still in the pool (period %d)", x.lbl(tx), tx.AccountNonce, st.GetNonce(snd), st.ValidationPeriod()))
			}
		}
	}
	// candidate list
	cand := pool.BuildBlockTransactions()
	next := map[common.Address]uint32{}
	seen := map[common.Hash]bool{}
	gas := 0
	for _, tx := range cand {
		snd, _ := types.Sender(tx)
		if _, ok := next[snd]; !ok {
			n := st.GetNonce(snd)
			if st.GetEpoch(snd) < global {
				n = 0
			}
			next[snd] = n
		}
		if seen[tx.Hash()] {
			x.viol("candidate-duplicate", x.lbl(tx)+" is offered twice")
		}
		seen[tx.Hash()] = true
		if tx.Epoch != global {
			x.viol("candidate-epoch", fmt.Sprintf("%s has epoch %d, the state %d", x.lbl(tx), tx.Epoch, global))
		}
		if tx.AccountNonce != next[snd]+1 {
			x.viol("candidate-nonce-gap", fmt.Sprintf("%s has nonce %d, expected %d", x.lbl(tx), tx.AccountNonce, next[snd]+1))
		}
		next[snd] = tx.AccountNonce
		gas += fee.CalculateGas(tx)
		if pool.GetTx(tx.Hash()) == nil {
			x.viol("candidate-not-in-pool", x.lbl(tx)+" is offered but not retrievable")
		}
	}
	if uint64(gas) > types.MaxBlockSize(x.r.Cfg.Consensus.EnableUpgrade11) {
		x.viol("candidate-gas-cap", fmt.Sprintf("the candidate list uses %d gas, the cap is %d", gas, types.MaxBlockSize(x.r.Cfg.Consensus.EnableUpgrade11)))
	}
	x.count("invariant_evaluations", 1)
	x.count("candidate_txs", len(cand))
	if x.check {
		if len(cand) > 0 {
			x.c.Outcome(fmt.Sprintf("candidates=%d gas>half=%v", len(cand), uint64(gas)*2 > types.MaxBlockSize(true)))
		}
	}
}

func (x *exec) key() string {
	d := x.r.Pool.VerifDump()
	var parts []string
	f := func(kind string, m map[common.Address][]*types.Transaction) {
		for s, l := range m {
			p := kind + s.Hex()[2:6] + ":"
			for _, tx := range l {
				p += x.lbl(tx) + ","
			}
			parts = append(parts, p)
		}
	}
	f("E", d.Executable)
	f("P", d.Pending)
	sort.Strings(parts)
	return world.StateKey(x.r, 0) + fmt.Sprintf(" sync=%v def=%v pool=", x.syncing, x.deferred) + strings.Join(parts, " ")
}

// ---------------------------------------------------------------- chainmc model

type model struct {
	sc   []scen
	base map[int]*baseState
}

type baseState struct {
	img replica.Image
	now int64
	key int
	e0  uint16
}

func (m *model) Scenarios() []string {
	var n []string
	for _, s := range m.sc {
		n = append(n, s.Name)
	}
	return n
}
func (m *model) Actions(scn int) []string            { return m.sc[scn].Ops }
func (m *model) Expandable(scn int, a int) bool      { return true }
func (m *model) Key(scn int, st *chainmc.State) string { return st.Aux["key"] }

func (m *model) open(scn int) *exec {
	b := m.base[scn]
	sc := &m.sc[scn]
	x := &exec{sc: sc, labels: map[common.Hash]string{}}
	var err error
	if b == nil {
		if x.r, err = world.OpenAs(sc.Opts, nil, world.T0, world.G); err != nil {
			panic(err)
		}
		x.now = world.T0
		x.e0 = x.r.App.State.Epoch()
		x.c = &chainmc.Ctx{}
		for _, op := range sc.Prefix {
			if !x.run(op) {
				panic(fmt.Sprintf("scenario %s: prefix op %q not enabled", sc.Name, op))
			}
		}
		b = &baseState{img: replica.Snapshot(x.r.DB), now: x.now, key: world.G, e0: x.e0}
		m.base[scn] = b
	}
	if x.r, err = world.OpenAs(sc.Opts, b.img, b.now, b.key); err != nil {
		panic(err)
	}
	x.now = b.now
	x.e0 = b.e0
	return x
}

func (m *model) Init(scn int) *chainmc.State {
	x := m.open(scn)
	return &chainmc.State{Now: x.now, Aux: map[string]string{"hist": "", "key": x.key()}}
}

func (m *model) Step(scn int, st *chainmc.State, a int, c *chainmc.Ctx) *chainmc.State {
	x := m.open(scn)
	x.c = c
	var hist []string
	if st.Aux["hist"] != "" {
		hist = strings.Split(st.Aux["hist"], ",")
	}
	for _, h := range hist {
		i, _ := strconv.Atoi(h)
		if !x.run(m.sc[scn].Ops[i]) {
			panic("replay diverged at " + m.sc[scn].Ops[i])
		}
	}
	x.check = c.Check
	if !x.run(m.sc[scn].Ops[a]) {
		return nil
	}
	hist = append(hist, strconv.Itoa(a))
	return &chainmc.State{Now: x.now, Aux: map[string]string{"hist": strings.Join(hist, ","), "key": x.key()}}
}

func main() {
	run := report.New("C14")
	m := &model{sc: scenarios(run.Thorough()), base: map[int]*baseState{}}
	cmodel = m
	if chainmc.IsWorker() {
		chainmc.WorkerMain(m)
		return
	}
	if run.Replay != "" {
		var f struct {
			Replay struct {
				Conc     *int  `json:"concurrent_scenario"`
				Schedule []int `json:"schedule"`
			} `json:"replay"`
		}
		if b, err := os.ReadFile(run.Replay); err == nil && json.Unmarshal(b, &f) == nil && f.Replay.Conc != nil {
			replayConc(run, *f.Replay.Conc, f.Replay.Schedule)
			if run.Violations() > 0 {
				os.Exit(1)
			}
			fmt.Println("replay finished without violation")
			return
		}
		chainmc.ReplayFile(run, m)
		return
	}
	if os.Getenv("VERIF_RACEPASS") != "" {
		racePass()
		return
	}
	if shard.IsWorker() {
		concurrent(run)
		return
	}
	run.SetBudget(6*60e9, 25*60e9)
	depth := 4
	if run.Thorough() {
		depth = 5
	}
	if os.Getenv("VERIF_C14_ONLY") != "conc" { // (debugging aid; evidence then says so)
		chainmc.Explore(run, m, chainmc.Config{Depth: depth, Chunk: 4})
	} else {
		run.Cap("part 1 skipped (VERIF_C14_ONLY=conc)")
	}
	concurrent(run)
	report.RaceKey = raceKey
	run.RacePass()
	run.Set("evaluations", run.Get("invariant_evaluations"))
	run.Set("distinct_nontrivial", run.Get("states"))
	run.Finish("model_checking", "part 1: BFS over operation histories on one long-lived real replica per history (6 scenarios; state key = chain state + pool queues + sync flag + deferred list); after every operation: index agreement, lookups by hash / short hash / address, removal-needs-a-cause, no block tx remains, no consumed nonce or past epoch outside sessions, candidate list (consecutive nonces from the committed state, one epoch, no duplicates, gas cap). part 2: controlled-scheduler DFS (deviation bounded) over the node's thread roles + free-running -race pass")
}
