package main

// Part 2 of C14: the node's thread roles under a controlled scheduler.
//
// Scheduling points: every lock operation of core/mempool (pool mutex, hash indexes, sync
// flag), of the nonce cache and of core/appstate (read-only state cache), rewritten to the
// vsync shim. One logical thread runs at a time; the explorer is a stateless DFS with
// deviation bounding (every non-default choice costs one). After every complete schedule:
// no deadlock, no panic, the structural invariants of part 1 on the final pool, every
// list built in flight is duplicate free with per-sender consecutive nonces, and every
// submission answered with nil is in the pool, on the chain or invalid on the final head.
//
// The free-running pass (real goroutines, -race) uses the same bodies; p2p submissions go
// through the real AsyncTxPool there.

import (
	"fmt"
	"os"
	"strings"
	"sync"
	"time"

	"github.com/idena-network/idena-go/blockchain/fee"
	"github.com/idena-network/idena-go/blockchain/types"
	"github.com/idena-network/idena-go/blockchain/validation"
	"github.com/idena-network/idena-go/common"
	"github.com/idena-network/idena-go/core/mempool"
	"github.com/idena-network/idena-go/stats/collector"
	"github.com/idena-network/idena-go/verifhook"
	"github.com/pkg/errors"
	"verif/mc/chainmc"
	"verif/mc/replica"
	"verif/mc/report"
	"verif/mc/sched"
	"verif/mc/shard"
	"verif/mc/world"
)

type cscen struct {
	Name    string     `json:"name"`
	Base    int        `json:"base"` // index of the part-1 scenario whose prefix state is the start
	Preload []string   `json:"preload"`
	Threads [][]string `json:"threads"`
	Roles   []string   `json:"roles"`
	Sync    bool       `json:"-"`
}

func cscenarios(thorough bool) []cscen {
	s := []cscen{
		{Name: "submissions vs foreign block consuming the nonce", Base: 0, Preload: []string{"ext X1 n1a"},
			Roles: []string{"engine", "p2p", "api"}, Threads: [][]string{{"foreign X1:n1b", "build"}, {"ext X1 n2a", "ext X1 n3a"}, {"int G n1a", "read"}}},
		{Name: "submissions vs block from the pool", Base: 0, Preload: []string{"ext X1 n1a", "ext X2 n1a"},
			Roles: []string{"engine", "p2p", "gossip"}, Threads: [][]string{{"block", "build"}, {"ext X1 n2a", "ext X2 n2a"}, {"read", "read"}}},
		{Name: "sync start/stop vs submissions", Base: 0, Preload: []string{"ext X1 n1a"}, Sync: true,
			Roles: []string{"engine", "p2p", "api"}, Threads: [][]string{{"startsync", "foreign X1:n1a", "stopsync"}, {"ext X1 n2a", "ext X2 n1a"}, {"int G n1a"}}},
		{Name: "two submitters, one sender, out of order", Base: 0,
			Roles: []string{"p2p-1", "p2p-2", "engine"}, Threads: [][]string{{"ext X1 n1a", "ext X1 n3a"}, {"ext X1 n2a", "ext X1 n1b"}, {"build", "block"}}},
		{Name: "limits under contention", Base: 0,
			Roles: []string{"p2p-1", "p2p-2", "engine"}, Threads: [][]string{{"ext X1 n1a", "ext X1 n2a", "ext X1 n3a"}, {"ext X2 n1a", "ext V1 n1a", "ext V2 n1a"}, {"block"}}},
		{Name: "long session: priority answers vs block", Base: 4,
			Roles: []string{"engine", "api", "p2p"}, Threads: [][]string{{"block", "build"}, {"int G cer:short+1", "int G cer:long+2"}, {"ext X1 n1a", "ext V1 cer:short+1"}}},
		{Name: "draining block vs follow-up submissions", Base: 0, Preload: []string{"ext X2 n2a"},
			Roles: []string{"engine", "p2p", "gossip"}, Threads: [][]string{{"foreign X2:drain", "block"}, {"ext X2 n3a", "ext X2 n1a"}, {"read"}}},
	}
	if thorough {
		s = append(s,
			cscen{Name: "four roles", Base: 0, Preload: []string{"ext X1 n1a"},
				Roles: []string{"engine", "p2p", "api", "gossip"}, Threads: [][]string{{"block", "build", "foreign X1:n2a"}, {"ext X1 n2a", "ext X1 n3a"}, {"int G n1a"}, {"read", "read"}}},
			cscen{Name: "after long session: next-epoch submissions vs block", Base: 5, Preload: []string{"ext X1 n1a"},
				Roles: []string{"engine", "p2p", "api"}, Threads: [][]string{{"block", "block"}, {"ext X1 e1n1", "ext X1 n2a"}, {"int G n+1"}}},
		)
	}
	return s
}

type cobs struct {
	mu      sync.Mutex
	results map[string]error // label -> submission answer
	txs     map[string]*types.Transaction
	lists   [][]*types.Transaction
	viols   [][2]string
	blocks  int
}

func (o *cobs) viol(key, what string) {
	o.mu.Lock()
	o.viols = append(o.viols, [2]string{key, what})
	o.mu.Unlock()
}

var cmodel *model

// prepare opens the replica (outside the scheduler), preloads the pool and builds every
// transaction of the scenario against the start state.
func prepare(cs cscen) (*exec, *cobs) {
	x := cmodel.open(cs.Base)
	x.c = &chainmc.Ctx{}
	o := &cobs{results: map[string]error{}, txs: map[string]*types.Transaction{}}
	for _, op := range cs.Preload {
		if !x.run(op) {
			panic("preload op not enabled: " + op)
		}
	}
	for _, th := range cs.Threads {
		for _, op := range th {
			f := strings.Fields(op)
			if f[0] == "ext" || f[0] == "int" {
				tx := x.tx(actor(f[1]), f[2])
				if tx == nil {
					panic("tx not buildable: " + op)
				}
				o.txs[f[1]+":"+f[2]] = tx
				x.labels[tx.Hash()] = f[1] + ":" + f[2]
			}
		}
	}
	return x, o
}

// cop runs one operation of a thread. async != nil: p2p submissions go through the AsyncTxPool.
func cop(x *exec, o *cobs, op string, async *mempool.AsyncTxPool) {
	f := strings.Fields(op)
	r := x.r
	switch f[0] {
	case "ext", "int":
		l := f[1] + ":" + f[2]
		tx := o.txs[l]
		var err error
		if f[0] == "int" {
			err = r.Pool.AddInternalTx(tx)
		} else if async != nil {
			err = async.AddExternalTxs(validation.InboundTx, tx)
		} else {
			err = r.Pool.AddExternalTxs(validation.InboundTx, tx)
		}
		o.mu.Lock()
		o.results[l] = err
		o.mu.Unlock()
	case "build":
		l := r.Pool.BuildBlockTransactions()
		o.mu.Lock()
		o.lists = append(o.lists, l)
		o.mu.Unlock()
	case "read":
		r.Pool.GetPendingTransaction(false, true, common.MultiShard, true)
		r.Pool.GetPriorityTransaction()
		for _, a := range []int{world.X1, world.X2, world.G} {
			r.Pool.GetPendingByAddress(world.A(a))
			r.App.NonceCache.GetNonce(world.A(a), x.e0) // (the RPC layer takes the epoch from a read-only state)
		}
		for _, tx := range o.txs {
			r.Pool.Get(tx.Hash128())
			r.Pool.GetTx(tx.Hash())
			break
		}
		r.Pool.IsSyncing()
	case "block", "foreign":
		// engine thread only (single writer of the chain)
		t := r.Chain.Head.Time() + 20
		replica.SetTime(t)
		var b *types.Block
		if f[0] == "block" {
			b = r.Chain.ProposeBlock([]byte{}).Block
		} else {
			var txs []*types.Transaction
			for _, p := range strings.Split(f[1], "&") {
				q := strings.SplitN(p, ":", 2)
				txs = append(txs, x.fixedTx(actor(q[0]), q[1]))
			}
			b = r.Chain.VerifProposeBlockWithTxs([]byte{}, txs).Block
		}
		if err := r.Chain.AddBlock(b, nil, collector.NewStatsCollector()); err != nil {
			o.viol("block-rejected", fmt.Sprintf("the engine cannot insert the block it built (%s): %v", op, err))
		}
		o.mu.Lock()
		o.blocks++
		o.mu.Unlock()
	case "startsync":
		r.Chain.StartSync()
	case "stopsync":
		r.Chain.StopSync()
	default:
		panic("cop " + op)
	}
}

func policySpawner(site string, f func()) {
	if world.PolicyOf(site) == verifhook.GoInline {
		f()
	}
}

func runConc(cs cscen, prefix []int) (*sched.Exec, *exec, *cobs) {
	x, o := prepare(cs)
	start := time.Unix(x.now, 0)
	e := sched.Run(prefix, start, time.Hour, 400000, func(e *sched.Exec) {
		verifhook.Spawner = policySpawner
		for i, th := range cs.Threads {
			th := th
			e.Go(cs.Roles[i], func() {
				for _, op := range th {
					cop(x, o, op, nil)
				}
			})
		}
	})
	return e, x, o
}

// judgeConc returns the violations of one complete execution.
func judgeConc(cs cscen, e *sched.Exec, x *exec, o *cobs) [][2]string {
	var v [][2]string
	if e.Panic != nil {
		msg := fmt.Sprint(e.Panic)
		if len(msg) > 160 {
			msg = msg[:160]
		}
		return append(v, [2]string{"conc-panic:" + short(msg, 50), "a thread panicked: " + msg})
	}
	if e.Deadlock != "" {
		return append(v, [2]string{"conc-deadlock", "deadlock: no thread enabled while these are not finished: " + e.Deadlock})
	}
	v = append(v, o.viols...)
	// lists built in flight
	for _, l := range o.lists {
		seen := map[common.Hash]bool{}
		last := map[common.Address]*types.Transaction{}
		for _, tx := range l {
			s, _ := types.Sender(tx)
			if seen[tx.Hash()] {
				v = append(v, [2]string{"conc-candidate-duplicate", x.lbl(tx) + " is offered twice in a list built concurrently"})
			}
			seen[tx.Hash()] = true
			if p := last[s]; p != nil && (tx.AccountNonce != p.AccountNonce+1 || tx.Epoch != p.Epoch) {
				v = append(v, [2]string{"conc-candidate-nonce-gap", fmt.Sprintf("a list built concurrently offers %s after %s", x.lbl(tx), x.lbl(p))})
			}
			last[s] = tx
		}
	}
	// structural invariants of the final pool (collect through a checking context)
	res := &collectCtx{}
	x.collect = res
	x.invariants()
	x.collect = nil
	for _, w := range res.v {
		v = append(v, [2]string{"conc-final:" + w[0], "after all threads finished: " + w[1]})
	}
	// answered nil => present, included or invalid on the final head
	ro, err := x.r.App.Readonly(x.r.Chain.Head.Height())
	if err != nil {
		return append(v, [2]string{"conc-readonly", err.Error()})
	}
	global := ro.State.Epoch()
	minFee := fee.GetFeePerGasForNetwork(ro.ValidatorsCache.NetworkSize())
	firstBad := map[common.Address]uint32{}
	for _, tx := range o.txs {
		if tx.Epoch != global {
			continue
		}
		if e := validation.ValidateTx(ro, tx, minFee, validation.MempoolTx); e != nil && errors.Cause(e) != validation.InvalidNonce {
			s, _ := types.Sender(tx)
			if n, ok := firstBad[s]; !ok || tx.AccountNonce < n {
				firstBad[s] = tx.AccountNonce
			}
		}
	}
	for l, tx := range o.txs {
		err, answered := o.results[l]
		if !answered || err != nil {
			if answered && x.r.Pool.GetTx(tx.Hash()) != nil && errors.Cause(err) != mempool.DuplicateTxError {
				v = append(v, [2]string{"conc-rejected-but-stored", fmt.Sprintf("%s was rejected (%v) but is in the pool", l, err)})
			}
			continue
		}
		if cs.Sync && !strings.HasPrefix(l, "G:") {
			continue // possibly deferred: a deferred transaction is not an accepted one
		}
		s, _ := types.Sender(tx)
		switch {
		case x.r.Pool.GetTx(tx.Hash()) != nil:
		case x.onChain(tx):
		case tx.Epoch < global:
		case tx.Epoch == global && validation.ValidateTx(ro, tx, minFee, validation.MempoolTx) != nil:
		default:
			if n, ok := firstBad[s]; ok && tx.Epoch == global && tx.AccountNonce >= n {
				continue
			}
			v = append(v, [2]string{"conc-accepted-lost", fmt.Sprintf("%s was accepted (nil error), is neither included nor invalid on the final head, and is not in the pool", l)})
		}
	}
	return v
}

func short(s string, n int) string {
	if len(s) > n {
		return s[:n]
	}
	return s
}

type collectCtx struct{ v [][2]string }

func outcomeOf(x *exec, o *cobs) string {
	var parts []string
	for l, err := range o.results {
		if err == nil {
			parts = append(parts, l+"=ok")
		} else {
			parts = append(parts, l+"="+errClass(err))
		}
	}
	sortStrings(parts)
	return strings.Join(parts, ",") + " | " + x.key()[strings.Index(x.key(), " sync="):]
}

func sortStrings(s []string) {
	for i := range s {
		for j := i + 1; j < len(s); j++ {
			if s[j] < s[i] {
				s[i], s[j] = s[j], s[i]
			}
		}
	}
}

// exploreConc: stateless DFS, deviation bounded; the level-1 subtrees are sharded over processes.
func exploreConc(cs cscen, ci int, bound int, info shard.Info, out *shard.Out, deadline time.Time) {
	executions, maxPoints := 0, 0
	outcomes := map[string]bool{}
	stop, truncated := false, false
	var rec func(prefix []int, top bool)
	sub := 0
	rec = func(prefix []int, top bool) {
		if stop {
			return
		}
		if !deadline.IsZero() && time.Now().After(deadline) {
			truncated = true
			return
		}
		e, x, o := runConc(cs, prefix)
		if e.Diverged != "" {
			report.HarnessError("C14 scenario %q: %s (prefix %v)", cs.Name, e.Diverged, prefix)
		}
		if !top || info.I == 0 {
			executions++
			outcomes[outcomeOf(x, o)] = true
		}
		if len(e.Points) > maxPoints {
			maxPoints = len(e.Points)
		}
		if vs := judgeConc(cs, e, x, o); len(vs) > 0 && (!top || info.I == 0) {
			// reproduce under the recorded schedule before reporting
			e2, x2, o2 := runConc(cs, e.Choices())
			vs2 := judgeConc(cs, e2, x2, o2)
			if len(vs2) == 0 || vs2[0][0] != vs[0][0] {
				report.HarnessError("C14 scenario %q: violation %s does not reproduce under its own schedule %v", cs.Name, vs[0][0], e.Choices())
			}
			for _, w := range vs {
				out.Violation(w[0], fmt.Sprintf("%s | scenario %q threads=%v schedule=%v", w[1], cs.Name, cs.Threads, e.Choices()),
					map[string]interface{}{"concurrent_scenario": ci, "name": cs.Name, "schedule": e.Choices()})
			}
			stop = true
			return
		}
		pts, ch := e.Points, e.Choices()
		for i := len(prefix); i < len(pts); i++ {
			base := 0
			for j := 0; j < i; j++ {
				if pts[j].Chosen != 0 {
					base++
				}
			}
			if base+1 > bound {
				break
			}
			for alt := 1; alt < pts[i].Enabled; alt++ {
				if top {
					sub++
					if !info.Mine(sub) {
						continue
					}
				}
				rec(append(append([]int{}, ch[:i]...), alt), false)
				if stop {
					return
				}
			}
		}
	}
	rec(nil, true)
	out.Count("schedules_explored", executions)
	out.Count("conc_outcomes:"+fmt.Sprint(ci), len(outcomes))
	out.Count("conc_maxpoints:"+fmt.Sprint(ci), 0)
	if info.I == 0 {
		out.Count("conc_points:"+fmt.Sprint(ci), maxPoints)
	}
	for k := range outcomes {
		out.Outcome(fmt.Sprintf("conc[%d] %s", ci, short(k, 200)))
	}
	if truncated {
		out.Cap(fmt.Sprintf("concurrent scenario %q: budget reached inside deviation bound %d", cs.Name, bound))
	}
}

func concurrent(run *report.Run) {
	bound := 2
	if run.Thorough() {
		bound = 3
	}
	cs := cscenarios(run.Thorough())
	shard.Run(run, 0, nil, func(info shard.Info, out *shard.Out) {
		for ci, c := range cs {
			if info.I == 0 {
				// determinism obligation: the default schedule twice
				_, x1, o1 := runConc(c, nil)
				_, x2, o2 := runConc(c, nil)
				if outcomeOf(x1, o1) != outcomeOf(x2, o2) {
					report.HarnessError("C14 scenario %q: nondeterministic replay: %q vs %q", c.Name, outcomeOf(x1, o1), outcomeOf(x2, o2))
				}
			}
			exploreConc(c, ci, bound, info, out, run.Deadline)
		}
	})
	run.Set("deviation_bound_completed", bound)
	run.Set("concurrent_scenarios", len(cs))
}

// replayConc re-runs one recorded schedule (violation replay files of part 2).
func replayConc(run *report.Run, ci int, schedule []int) {
	cs := cscenarios(true)[ci]
	e, x, o := runConc(cs, schedule)
	for _, w := range judgeConc(cs, e, x, o) {
		run.Violation(w[0], w[1]+fmt.Sprintf(" | scenario %q schedule=%v", cs.Name, schedule), map[string]interface{}{"concurrent_scenario": ci, "schedule": schedule})
	}
}

// racePass: the same bodies with real goroutines under the race detector.
func racePass() {
	reps := 12
	verifhook.GoPolicy = func(site string) verifhook.GoMode {
		if strings.Contains(site, "async_txpool.go") {
			return verifhook.GoReal
		}
		return world.PolicyOf(site)
	}
	for _, cs := range cscenarios(true) {
		for i := 0; i < reps; i++ {
			x, o := prepare(cs)
			replica.KeepAppConfig = true
			async := mempool.NewAsyncTxPool(x.r.Pool)
			var wg sync.WaitGroup
			done := make(chan struct{})
			for ti, th := range cs.Threads {
				th := th
				engine := cs.Roles[ti] == "engine"
				wg.Add(1)
				go func() {
					defer wg.Done()
					defer func() {
						if p := recover(); p != nil {
							fmt.Fprintln(os.Stderr, "racepass: panic:", p)
						}
					}()
					if engine {
						// the engine runs its operations, then three more blocks from the pool
						defer close(done)
						for _, op := range append(append([]string{}, th...), "block", "block", "block") {
							cop(x, o, op, async)
						}
						return
					}
					// every other role keeps repeating its operations until the engine is done
					for n := 0; n < 2000; n++ {
						for _, op := range th {
							cop(x, o, op, async)
						}
						select {
						case <-done:
							return
						default:
						}
					}
				}()
			}
			wg.Wait()
			for w := 0; w < 3000 && async.VerifQueueLen() > 0; w++ { // let the async loop drain before the next replica is built
				time.Sleep(time.Millisecond)
			}
			time.Sleep(30 * time.Millisecond)
		}
	}
}

// raceKey classifies the one recorded race: TxPool.put reads (and lazily populates) the *live*
// StateDB on a submitting thread while the engine thread applies / commits a block to it. The
// key names the call site, not source lines, because the detector reports whichever pair of
// accesses it happens to see first.
func raceKey(rep string) string {
	for _, blk := range strings.Split(rep, "\n\n") {
		if !strings.Contains(blk, "mempool.(*TxPool).put()") {
			continue
		}
		// the racing access of this stack must be inside core/state (the live StateDB)
		for _, line := range strings.Split(blk, "\n") {
			line = strings.TrimSpace(line)
			if strings.HasPrefix(line, "/repo/") {
				if strings.HasPrefix(line, "/repo/core/state/") {
					return "data-race:TxPool.put-reads-live-StateDB-while-a-block-is-applied"
				}
				break
			}
		}
	}
	return ""
}
