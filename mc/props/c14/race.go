//go:build verifrace

package main

// presence of this file makes ./check build the -race variant of this property's binary
// (the free-running data-race pass, see conc.go racePass).
