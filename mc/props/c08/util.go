package main

import (
	"encoding/json"
	"os"
)

func readFile(p string) ([]byte, error)           { return os.ReadFile(p) }
func jsonUnmarshal(b []byte, v interface{}) error { return json.Unmarshal(b, v) }
func exit(c int)                                  { os.Exit(c) }
