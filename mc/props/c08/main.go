// C08 — a fork is adopted only if valid and certified; adoption equals a clean sync.
//
// Exhaustive enumeration of pairs of chains from a common ancestor: own branch (kinds per
// position) x fork (kinds per position) x certificate shape of the fork tip x interior
// certificate policy x tampering of one fork block. The fork is fed to the real
// ForkResolver.processBlocks and, if accepted, adopted with the real ApplyFork.
package main

import (
	"fmt"
	"sort"
	"strings"

	"github.com/idena-network/idena-go/blockchain/types"
	"github.com/idena-network/idena-go/blockchain/validation"
	"github.com/idena-network/idena-go/common"
	"github.com/idena-network/idena-go/consensus"
	"github.com/idena-network/idena-go/core/appstate"
	"github.com/idena-network/idena-go/crypto"
	"verif/mc/monitors"
	"verif/mc/replica"
	"verif/mc/report"
	"verif/mc/shard"
	"verif/mc/world"
)

// block kinds
const kinds = "EPTKON"

// certificate shapes
var tipShapes = []string{"valid", "nil", "empty", "under-quorum", "forged", "wrong-hash", "wrong-round", "signed-by-N1+V1", "signed-by-P+V1"}

type base struct {
	opts replica.Opts
	img  replica.Image
	now  int64
}

func mkCert(blk *types.Block, parent common.Hash, shape string) *types.BlockCert {
	votes := func(keys []int, hash common.Hash, round uint64) *types.BlockCert {
		var vs []*types.Vote
		for _, k := range keys {
			v := &types.Vote{Header: &types.VoteHeader{Round: round, Step: types.Final, ParentHash: parent, VotedHash: hash}}
			h := crypto.SignatureHash(v)
			v.Signature = replica.Sec(k).Sign(h[:])
			vs = append(vs, v)
		}
		return (&types.FullBlockCert{Votes: vs}).Compress()
	}
	switch shape {
	case "nil":
		return nil
	case "empty":
		return &types.BlockCert{}
	case "valid":
		return votes([]int{world.V1, world.V2}, blk.Hash(), blk.Height())
	case "under-quorum":
		return votes([]int{world.V1}, blk.Hash(), blk.Height())
	case "forged":
		return votes([]int{world.X1, world.X2, world.Z}, blk.Hash(), blk.Height())
	case "wrong-hash":
		return votes([]int{world.V1, world.V2}, common.Hash{9, 9}, blk.Height())
	case "signed-by-N1+V1": // N1 is validated but offline at the base: a validator only where an "online N1" switch was applied
		return votes([]int{world.N1, world.V1}, blk.Hash(), blk.Height())
	case "signed-by-P+V1": // P is online at the base: a validator unless an "offline P" switch was applied
		return votes([]int{world.P, world.V1}, blk.Hash(), blk.Height())
	case "wrong-round":
		return votes([]int{world.V1, world.V2}, blk.Hash(), blk.Height()+1)
	}
	panic(shape)
}

// build one block of the given kind on r at time now
func build(r *replica.Replica, kind byte, now int64) *types.Block {
	replica.SetTime(now)
	b := world.NewB(r)
	var txs []*types.Transaction
	switch kind {
	case 'E':
		return r.Empty()
	case 'P':
	case 'T':
		txs = append(txs, b.Tx(world.Spec{From: world.X1, To: world.PA(world.X2), Type: types.SendTx, Amount: replica.Dna(1)}))
	case 'K':
		txs = append(txs, b.Tx(world.Spec{From: world.D1, Type: types.KillTx}))
	case 'O':
		txs = append(txs, b.Tx(world.Spec{From: world.P, Type: types.OnlineStatusTx, Payload: world.Online(false)}))
	case 'N':
		txs = append(txs, b.Tx(world.Spec{From: world.N1, Type: types.OnlineStatusTx, Payload: world.Online(true)}))
	}
	world.Submit(r, txs)
	return r.Propose(now)
}

func seqs(maxLen int, minLen int) []string {
	var out []string
	var rec func(p string)
	rec = func(p string) {
		if len(p) >= minLen {
			out = append(out, p)
		}
		if len(p) == maxLen {
			return
		}
		for i := 0; i < len(kinds); i++ {
			rec(p + string(kinds[i]))
		}
	}
	rec("")
	return out
}

func mkBase() base {
	o := world.GenesisG2()
	o.Ipfs = world.Net
	o.KeyIdx = world.G
	now := world.T0
	replica.SetTime(now)
	r, err := replica.New(o, replica.Image(nil).NewDB())
	if err != nil {
		panic(err)
	}
	step := func(names ...func(b *world.B) *types.Transaction) {
		img := replica.Snapshot(r.DB)
		r, err = world.Open(o, img, now)
		if err != nil {
			panic(err)
		}
		now += 20
		b := world.NewB(r)
		var txs []*types.Transaction
		for _, f := range names {
			txs = append(txs, f(b))
		}
		world.Submit(r, txs)
		blk := r.Propose(now)
		if err := r.Add(blk); err != nil {
			panic(err)
		}
	}
	on := func(k int) func(b *world.B) *types.Transaction {
		return func(b *world.B) *types.Transaction {
			return b.Tx(world.Spec{From: k, Type: types.OnlineStatusTx, Payload: world.Online(true)})
		}
	}
	step(on(world.V1), on(world.V2), on(world.P))
	step()
	step()
	return base{o, replica.Snapshot(r.DB), now}
}

type caseDesc struct {
	Depth    int    `json:"ancestor_depth"`
	Own      string `json:"own"`
	Fork     string `json:"fork"`
	Tip      string `json:"tip_cert"`
	Interior string `json:"interior_certs"`
	Tamper   string `json:"tamper"`
}

func (c caseDesc) String() string {
	return fmt.Sprintf("depth=%d own=%q fork=%q tip=%s interior=%s tamper=%s", c.Depth, c.Own, c.Fork, c.Tip, c.Interior, c.Tamper)
}

func txHashes(blks []*types.Block) []string {
	var r []string
	for _, b := range blks {
		for _, tx := range b.Body.Transactions {
			r = append(r, tx.Hash().Hex())
		}
	}
	sort.Strings(r)
	return r
}

func runCase(bs base, cd caseDesc, out *shard.Out) {
	fail := func(key, what string) {
		out.Violation(key, what+" | case "+cd.String(), cd)
	}
	// node N at the base head; ancestor = head - depth
	N, err := world.OpenAs(bs.opts, bs.img, bs.now, world.V1)
	if err != nil {
		panic(err)
	}
	headH := N.Chain.Head.Height()
	ancH := headH - uint64(cd.Depth)
	// reference builder R: fresh replica at the ancestor (reset a copy)
	R, err := world.OpenAs(bs.opts, bs.img, bs.now, world.V2)
	if err != nil {
		panic(err)
	}
	if cd.Depth > 0 {
		if _, err := R.Chain.ResetTo(ancH); err != nil {
			panic(err)
		}
		// fresh start on the reset image
		R, err = world.OpenAs(bs.opts, replica.Snapshot(R.DB), bs.now, world.V2)
		if err != nil {
			panic(err)
		}
	}
	ancImg := replica.Snapshot(R.DB)
	// own branch on N (from the head, so own chain = base blocks above ancestor + own kinds)
	now := bs.now
	var ownBlocks []*types.Block
	for h := ancH + 1; h <= headH; h++ {
		ownBlocks = append(ownBlocks, N.Chain.GetBlockByHeight(h))
	}
	for i := 0; i < len(cd.Own); i++ {
		now += 20
		blk := build(N, cd.Own[i], now)
		if err := N.Add(blk); err != nil {
			out.Outcome("skip own block: " + cls(err))
			return // own block not buildable in this state (e.g. tx not applicable): skip case
		}
		ownBlocks = append(ownBlocks, blk)
	}
	// fork on R
	fnow := R.Chain.Head.Time()
	var bundles []types.BlockBundle
	var forkBlocks []*types.Block
	ineligibleTip := false
	for i := 0; i < len(cd.Fork); i++ {
		fnow += 23
		if fnow < bs.now-100 {
			fnow = bs.now - 100 + int64(i)*23
		}
		parent := R.Chain.Head.Hash()
		forkTipParentOnline = map[int]bool{world.N1: R.App.ValidatorsCache.IsOnlineIdentity(world.A(world.N1)), world.P: R.App.ValidatorsCache.IsOnlineIdentity(world.A(world.P))}
		last := i == len(cd.Fork)-1
		if last && strings.HasPrefix(cd.Tamper, "tip-by-") && cd.Fork[i] != 'E' {
			// the tip is proposed by somebody who may not propose: a key without identity, or a
			// validated identity that is offline (N1 at the base). The reference replica refuses it.
			key := world.X1
			if cd.Tamper == "tip-by-offline-identity" {
				key = world.N1
				if R.App.ValidatorsCache.IsOnlineIdentity(world.A(world.N1)) {
					return
				}
			}
			Rx, err := world.OpenAs(bs.opts, replica.Snapshot(R.DB), fnow, key)
			if err != nil {
				panic(err)
			}
			blk := build(Rx, cd.Fork[i], fnow)
			if err := R.Add(blk); err == nil {
				fail("reference-accepts-ineligible-proposer", "the reference replica inserted a block proposed by "+world.ActorNames[key])
				return
			}
			forkBlocks = append(forkBlocks, blk)
			bundles = append(bundles, types.BlockBundle{Block: blk, Cert: mkCert(blk, parent, "valid")})
			ineligibleTip = true
			continue
		}
		blk := build(R, cd.Fork[i], fnow)
		if err := R.Add(blk); err != nil {
			out.Outcome("skip fork block: " + cls(err))
			return
		}
		forkBlocks = append(forkBlocks, blk)
		shape := "nil"
		if last {
			shape = cd.Tip
		} else if cd.Interior == "valid" || (cd.Interior == "where-required" && blk.Header.Flags().HasFlag(types.IdentityUpdate)) {
			shape = "valid"
		}
		bundles = append(bundles, types.BlockBundle{Block: blk, Cert: mkCert(blk, parent, shape)})
	}
	if len(ownBlocks) > 0 && len(forkBlocks) > 0 && ownBlocks[0].Hash() == forkBlocks[0].Hash() {
		out.Count("cases_skipped_identical_first_block", 1)
		return
	}
	// tampering of one fork block (makes the fork invalid)
	invalid := false
	switch cd.Tamper {
	case "root-of-first":
		b0 := bundles[0].Block
		if b0.Header.ProposedHeader != nil {
			cp := *b0.Header.ProposedHeader
			cp.Root = common.Hash{1}
			bundles[0].Block = &types.Block{Header: &types.Header{ProposedHeader: &cp}, Body: b0.Body}
			invalid = true
		}
	case "drop-middle":
		if len(bundles) >= 3 {
			bundles = append(bundles[:1], bundles[2:]...)
			invalid = true
		}
	}
	if ineligibleTip {
		invalid = true
	}
	if cd.Tamper != "none" && !invalid {
		return
	}
	replica.SetTime(now + 60)
	if fnow+1 > now+60 {
		replica.SetTime(fnow + 1)
	}
	N.Activate()
	before := world.SharedImage(replica.Snapshot(N.DB))
	headBefore := N.Chain.Head.Hash()
	res := consensus.VerifNewForkResolver(N.Chain)
	var offerErr error
	func() {
		defer func() {
			if p := recover(); p != nil {
				offerErr = fmt.Errorf("PANIC: %v", p)
			}
		}()
		offerErr = res.VerifOffer(bundles)
	}()
	if offerErr != nil && strings.HasPrefix(offerErr.Error(), "PANIC") {
		fail("processblocks-panics", "ForkResolver.processBlocks panicked: "+offerErr.Error())
		return
	}
	accepted := offerErr == nil && res.HasLoadedFork()
	out.Count("fork_offers", 1)
	// ---- (i) accepted => valid + certified
	needCertMissing := false
	for i, b := range bundles {
		if b.Block.Header.Flags().HasFlag(types.IdentityUpdate) && b.Cert.Empty() {
			needCertMissing = true
		}
		_ = i
	}
	tipBad := cd.Tip != "valid"
	// the two membership-dependent shapes are judged by the validator view of the fork itself
	// (the builder replica R followed the fork): every signer must be an online validator there
	if cd.Tip == "signed-by-N1+V1" || cd.Tip == "signed-by-P+V1" {
		signer := world.N1
		if cd.Tip == "signed-by-P+V1" {
			signer = world.P
		}
		tipBad = !forkTipParentOnline[signer]
	}
	if accepted {
		if tipBad {
			fail("accepted-bad-tip-cert:"+cd.Tip, fmt.Sprintf("fork accepted although its tip certificate is %s", cd.Tip))
			return
		}
		if invalid {
			fail("accepted-invalid-fork:"+cd.Tamper, "fork accepted although one of its blocks is invalid ("+cd.Tamper+")")
			return
		}
		if needCertMissing {
			fail("accepted-identity-update-without-cert", "fork accepted although an identity-update block carries no certificate")
			return
		}
	}
	if !accepted {
		out.Outcome("refused:" + cls(offerErr))
		// (iv) refusal leaves everything untouched
		after := world.SharedImage(replica.Snapshot(N.DB))
		if after.Hash() != before.Hash() || N.Chain.Head.Hash() != headBefore {
			fail("refusal-not-side-effect-free", fmt.Sprintf("refused fork changed the database: %v", before.Diff(after)))
		}
		// the canonical state object must still be usable: next own block must be insertable
		return
	}
	// reference replica: followed the fork from the ancestor the normal way
	Ref, err := world.OpenAs(bs.opts, ancImg, bs.now, world.X2)
	if err != nil {
		panic(err)
	}
	for _, b := range bundles {
		if err := Ref.Add(b.Block); err != nil {
			fail("accepted-fork-invalid-on-reference", "fork accepted by ValidateSubChain but a replica following it from the ancestor rejects a block: "+err.Error())
			return
		}
		if !b.Cert.Empty() {
			Ref.Chain.WriteCertificate(b.Block.Hash(), b.Cert, false)
		}
	}
	N.Activate()
	var reverted []*types.Transaction
	func() {
		defer func() {
			if p := recover(); p != nil {
				err = fmt.Errorf("PANIC: %v", p)
			}
		}()
		reverted, err = res.ApplyFork()
	}()
	if err != nil && strings.HasPrefix(err.Error(), "PANIC") {
		fail("applyfork-panics", "ApplyFork panicked while adopting a fork that processBlocks accepted: "+err.Error())
		return
	}
	if err != nil {
		fail("applyfork-error", "ApplyFork failed on a fork that processBlocks accepted: "+err.Error())
		return
	}
	out.Count("forks_adopted", 1)
	out.Outcome(fmt.Sprintf("adopted own=%d fork=%d", len(ownBlocks), len(forkBlocks)))
	// ---- (ii) equals a clean sync
	if N.Chain.Head.Hash() != Ref.Chain.Head.Hash() || N.App.State.Root() != Ref.App.State.Root() || N.App.IdentityState.Root() != Ref.App.IdentityState.Root() {
		fail("adoption-head-differs", fmt.Sprintf("after adoption head/roots differ from the reference: %x/%x vs %x/%x", N.Chain.Head.Hash(), N.App.State.Root(), Ref.Chain.Head.Hash(), Ref.App.State.Root()))
		return
	}
	var addrs []common.Address
	for i := 0; i <= world.NEW2; i++ {
		addrs = append(addrs, world.A(i))
	}
	if d := monitors.DiffObs(monitors.ObserveCache(N.App.ValidatorsCache, addrs), monitors.ObserveCache(Ref.App.ValidatorsCache, addrs)); len(d) > 0 {
		fail("adoption-validator-view-differs", fmt.Sprintf("validator view after adoption differs from the reference: %v", d))
		return
	}
	// the read-only view of the head (what the pool, the RPC layer and the ceremony read) follows the fork,
	// and the reverted transactions are judged by the pool as a freshly synced node judges them
	viewOK := func() (ok bool) {
		defer func() {
			if r := recover(); r != nil {
				fail("adoption-readonly-view-panics", fmt.Sprintf("reading the node's state through Readonly(head) / the pool after adoption panics: %v", r))
				ok = false
			}
		}()
		if roN, err := N.App.Readonly(N.Chain.Head.Height()); err != nil {
			fail("adoption-readonly-view-fails", "Readonly(head) fails after adoption: "+err.Error())
			return false
		} else if roR, err := Ref.App.Readonly(Ref.Chain.Head.Height()); err == nil {
			fp := func(a *appstate.AppState) string {
				var sb strings.Builder
				for _, ad := range addrs {
					fmt.Fprintf(&sb, "%v/%d/%d/%d;", a.State.GetBalance(ad), a.State.GetNonce(ad), a.State.GetEpoch(ad), a.State.GetIdentityState(ad))
				}
				return sb.String() + fmt.Sprint(a.ValidatorsCache.NetworkSize(), a.ValidatorsCache.OnlineSize())
			}
			if fp(roN) != fp(roR) {
				fail("adoption-readonly-view-differs", "after adoption Readonly(head) does not show the adopted head's state (balances / nonces / identity states differ from a replica that followed the fork)")
				return false
			}
		}
		for _, tx := range reverted {
			eN := N.Pool.AddExternalTxs(validation.MempoolTx, tx)
			eR := Ref.Pool.AddExternalTxs(validation.MempoolTx, tx)
			if (eN == nil) != (eR == nil) {
				fail("adoption-reverted-tx-verdict-differs", fmt.Sprintf("a reverted transaction is judged differently by the node's pool (%v) and by the pool of a replica that followed the fork (%v)", eN, eR))
				return false
			}
		}
		return true
	}()
	if !viewOK {
		return
	}
	top := N.Chain.Head.Height()
	for h := uint64(1); h <= top+uint64(len(ownBlocks))+1; h++ {
		a, b := N.Chain.GetBlockHeaderByHeight(h), Ref.Chain.GetBlockHeaderByHeight(h)
		if (a == nil) != (b == nil) || a != nil && a.Hash() != b.Hash() {
			fail("adoption-canonical-differs", fmt.Sprintf("canonical block at height %d differs from the reference (%v vs %v)", h, a != nil, b != nil))
			return
		}
		da, db := N.Chain.GetIdentityDiff(h), Ref.Chain.GetIdentityDiff(h)
		ba, bb := []byte(nil), []byte(nil)
		if da != nil {
			ba, _ = da.ToBytes()
		}
		if db != nil {
			bb, _ = db.ToBytes()
		}
		if string(ba) != string(bb) {
			fail("adoption-identity-diff-differs", fmt.Sprintf("stored identity diff of height %d differs from the reference (%d vs %d bytes): the node would serve a diff that is not the canonical block's", h, len(ba), len(bb)))
			return
		}
	}
	for _, blk := range forkBlocks {
		for _, tx := range blk.Body.Transactions {
			ta, ia := N.Chain.GetTx(tx.Hash())
			if ta == nil || ia == nil || ia.BlockHash != blk.Hash() {
				fail("adoption-txindex-missing", "fork tx "+tx.Hash().Hex()+" is not indexed after adoption")
				return
			}
		}
	}
	var abandoned []*types.Block
	forkHas := map[common.Hash]bool{}
	for _, b := range forkBlocks {
		forkHas[b.Hash()] = true
	}
	for _, b := range ownBlocks {
		if !forkHas[b.Hash()] {
			abandoned = append(abandoned, b)
		}
	}
	for _, b := range abandoned {
		if N.Chain.GetBlock(b.Hash()) != nil {
			fail("abandoned-header-remains", fmt.Sprintf("header of abandoned block %d is still stored", b.Height()))
			return
		}
	}
	// ---- (iii) reverted = txs of abandoned blocks
	var rv []string
	for _, tx := range reverted {
		rv = append(rv, tx.Hash().Hex())
	}
	sort.Strings(rv)
	if want := txHashes(abandoned); strings.Join(rv, ",") != strings.Join(want, ",") {
		fail("reverted-list-wrong", fmt.Sprintf("ApplyFork returned %d reverted txs, abandoned blocks hold %d", len(rv), len(want)))
		return
	}
	// the adopted node keeps working: next block of the reference is insertable
	Nx, err := world.Open(bs.opts, replica.Snapshot(Ref.DB), fnow+40)
	if err != nil {
		panic(err)
	}
	nb := build(Nx, 'P', fnow+40)
	if err := N.Add(nb); err != nil {
		fail("post-adoption-block-rejected", "after adoption the node rejects the next honest block: "+err.Error())
		return
	}
	out.Sample(map[string]interface{}{"case": cd, "abandoned_blocks": len(abandoned), "reverted_txs": len(rv)})
}

// validator membership (as of the fork tip's parent, on the fork) of the signers of the membership-dependent shapes
var forkTipParentOnline map[int]bool

func cls(e error) string {
	if e == nil {
		return "no-applicable-fork"
	}
	s := e.Error()
	if i := strings.Index(s, "err="); i >= 0 {
		s = s[i+4:]
	}
	for i, ch := range s {
		if ch >= '0' && ch <= '9' || ch == ':' {
			return s[:i]
		}
	}
	if len(s) > 50 {
		s = s[:50]
	}
	return s
}

func cases(thorough bool) []caseDesc {
	ownMax, forkMax := 1, 2
	if thorough {
		ownMax, forkMax = 2, 3
	}
	var out []caseDesc
	for depth := 0; depth <= 1; depth++ {
		for _, own := range seqs(ownMax, 0) {
			for _, fork := range seqs(forkMax, 1) {
				for _, tip := range tipShapes {
					for _, in := range []string{"where-required", "none", "valid"} {
						if len(fork) == 1 && in != "where-required" {
							continue
						}
						out = append(out, caseDesc{depth, own, fork, tip, in, "none"})
					}
				}
				out = append(out, caseDesc{depth, own, fork, "valid", "where-required", "root-of-first"})
				if fork[len(fork)-1] != 'E' {
					out = append(out, caseDesc{depth, own, fork, "valid", "where-required", "tip-by-non-identity"})
					out = append(out, caseDesc{depth, own, fork, "valid", "where-required", "tip-by-offline-identity"})
				}
				if len(fork) >= 3 {
					out = append(out, caseDesc{depth, own, fork, "valid", "where-required", "drop-middle"})
				}
			}
		}
	}
	if !thorough {
		// quick tier: own branches that change the validator set (so that a certificate check
		// against the wrong validator view becomes visible)
		for depth := 0; depth <= 1; depth++ {
			for _, own := range []string{"N", "NE", "NP", "EN", "O", "OE", "OP", "EO"} {
				for _, fork := range []string{"E", "P", "EE", "PP", "EP", "PE"} {
					for _, tip := range []string{"valid", "signed-by-N1+V1", "signed-by-P+V1"} {
						out = append(out, caseDesc{depth, own, fork, tip, "where-required", "none"})
					}
				}
			}
		}
		// quick tier: a slice of the length-3 forks (E/P kinds only) so that gaps are offered too
		for depth := 0; depth <= 1; depth++ {
			for _, own := range []string{"", "E", "P", "EE", "EP", "PE", "PP"} {
				for _, fork := range []string{"EEE", "EEP", "EPE", "EPP", "PEE", "PEP", "PPE", "PPP"} {
					out = append(out, caseDesc{depth, own, fork, "valid", "where-required", "none"})
					out = append(out, caseDesc{depth, own, fork, "valid", "where-required", "drop-middle"})
					out = append(out, caseDesc{depth, own, fork, "empty", "none", "none"})
				}
			}
		}
	}
	return out
}

func main() {
	run := report.New("C08")
	if run.Replay != "" {
		replay(run)
		return
	}
	run.SetBudget(5*60e9, 20*60e9)
	cs := cases(run.Thorough())
	shard.Run(run, 0, nil, func(s shard.Info, out *shard.Out) {
		bs := mkBase()
		for i, cd := range cs {
			if !s.Mine(i) {
				continue
			}
			if run.Expired("case enumeration") {
				out.Cap("internal deadline reached; cases are enumerated round-robin, so every shard covered a prefix of its share")
				break
			}
			runCase(bs, cd, out)
			out.Count("cases", 1)
		}
	})
	run.Set("case_space", len(cs))
	run.Set("evaluations", run.Get("fork_offers"))
	run.Set("states", run.Get("cases"))
	run.Set("transitions", run.Get("fork_offers"))
	run.Set("traces_validated_against_impl", run.Get("fork_offers"))
	run.Set("distinct_nontrivial", run.Get("fork_offers"))
	if run.Get("cases") < len(cs) {
		run.Cap(fmt.Sprintf("%d of %d cases executed", run.Get("cases"), len(cs)))
	}
	run.Assume = append(run.Assume, "committee = {V1,V2,P} online on a G2 chain (threshold 2); valid certificates are signed by V1 and V2",
		"fork blocks are built by a replica that follows the fork; the reference for adoption is a third replica that inserts the offered blocks from the ancestor")
	run.Finish("model_checking", "exhaustive enumeration of (ancestor depth 0..1) x (own branch kind sequences up to the bound over E,P,T,K,O) x (fork kind sequences) x (7 tip certificate shapes) x (3 interior certificate policies) + tampered forks, each fed to the real ForkResolver.processBlocks/ApplyFork; oracles: accepted => valid on a reference replica and certified; adoption == reference replica (head, roots, validator view, canonical hashes, stored identity diffs, tx index); reverted list; refusal side-effect free")
}

func replay(run *report.Run) {
	var f struct {
		Replay caseDesc `json:"replay"`
	}
	b, err := readFile(run.Replay)
	if err != nil {
		report.HarnessError("%v", err)
	}
	if err := jsonUnmarshal(b, &f); err != nil {
		report.HarnessError("%v", err)
	}
	out := &shard.Out{Cnt: map[string]int{}, Outc: map[string]int{}}
	runCase(mkBase(), f.Replay, out)
	for _, v := range out.Viol {
		fmt.Printf("REPRODUCED key=%s\n  %s\n", v.Key, v.What)
	}
	fmt.Println("outcomes:", out.Outc, "counters:", out.Cnt)
	if len(out.Viol) > 0 {
		exit(1)
	}
}
