// C03 — a block with any inconsistent derived field is rejected, side-effect free.
//
// Corpus: every honest block produced by an explicit-state search (proposed and empty).
// For each block every tampering operator is applied and the result offered to a
// validator replica through the real AddBlock. Body edits whose commitments are recomputed
// are judged by the *building path* (VerifProposeBlockWithTxs derived from ProposeBlock):
// the edited block is consistent iff an honest rebuild from its own body/time/proposer
// reproduces its derived fields.
package main

import (
	"bytes"
	"fmt"
	"math/big"

	"github.com/idena-network/idena-go/blockchain/types"
	"github.com/idena-network/idena-go/common"
	"github.com/idena-network/idena-go/crypto"
	"github.com/idena-network/idena-go/stats/collector"
	"verif/mc/chainmc"
	"verif/mc/chainprop"
	"verif/mc/replica"
	"verif/mc/report"
	"verif/mc/world"
)

type tamper struct {
	name string
	blk  *types.Block
	// rebuild: judge by the building path instead of expecting rejection
	rebuild bool
}

func cloneProposed(b *types.Block) (*types.Block, *types.ProposedHeader) {
	cp := *b.Header.ProposedHeader
	cp.ProposerPubKey = append([]byte{}, cp.ProposerPubKey...)
	cp.IpfsHash = append([]byte{}, cp.IpfsHash...)
	cp.TxBloom = append([]byte{}, cp.TxBloom...)
	cp.SeedProof = append([]byte{}, cp.SeedProof...)
	cp.TxReceiptsCid = append([]byte{}, cp.TxReceiptsCid...)
	if len(cp.IpfsHash) == 0 {
		cp.IpfsHash = b.Header.ProposedHeader.IpfsHash
	}
	if len(cp.TxBloom) == 0 {
		cp.TxBloom = b.Header.ProposedHeader.TxBloom
	}
	if len(cp.TxReceiptsCid) == 0 {
		cp.TxReceiptsCid = b.Header.ProposedHeader.TxReceiptsCid
	}
	if cp.FeePerGas != nil {
		cp.FeePerGas = new(big.Int).Set(cp.FeePerGas)
	}
	body := &types.Body{Transactions: append([]*types.Transaction{}, b.Body.Transactions...)}
	return &types.Block{Header: &types.Header{ProposedHeader: &cp}, Body: body}, &cp
}

func flipHash(h common.Hash, last bool) common.Hash {
	if last {
		h[31] ^= 1
	} else {
		h[0] ^= 0x80
	}
	return h
}

func flipBytes(b []byte, last bool) []byte {
	c := append([]byte{}, b...)
	if len(c) == 0 {
		return []byte{1}
	}
	if last {
		c[len(c)-1] ^= 1
	} else {
		c[0] ^= 0x80
	}
	return c
}

var persistentFlags = []types.BlockFlag{types.IdentityUpdate, types.FlipLotteryStarted, types.ShortSessionStarted, types.LongSessionStarted,
	types.AfterLongSessionStarted, types.ValidationFinished, types.Snapshot, types.NewGenesis}

type namedTime struct {
	name string
	t    int64
}

// extremeTimes: timestamps far outside the window, incl. the points where seconds-to-duration
// arithmetic (x 1e9) leaves the int64 range.
func extremeTimes(parent int64) []namedTime {
	const nsWrap = 9223372037 // smallest d with d*1e9 > MaxInt64
	return []namedTime{
		{"0", 0}, {"1", 1}, {"-1", -1}, {"MinInt64", -1 << 63}, {"MaxInt64", 1<<63 - 1},
		{"parent-2^33", parent - 1<<33}, {"parent-2^40", parent - 1<<40}, {"parent-2^62", parent - 1<<62},
		{"parent-nsWrap", parent - nsWrap}, {"parent-nsWrap+1", parent - nsWrap + 1}, {"parent-nsWrap-1", parent - nsWrap - 1},
		{"parent-2*nsWrap", parent - 2*nsWrap}, {"parent-3*nsWrap", parent - 3*nsWrap},
		{"parent+nsWrap", parent + nsWrap}, {"parent+2^40", parent + 1<<40},
	}
}

func operators(b *types.Block, other *types.Block, parentTime int64, now int64, extra []*types.Transaction) []tamper {
	var out []tamper
	if b.IsEmpty() {
		mk := func(name string, f func(h *types.EmptyBlockHeader)) {
			cp := *b.Header.EmptyBlockHeader
			f(&cp)
			out = append(out, tamper{name: "empty." + name, blk: &types.Block{Header: &types.Header{EmptyBlockHeader: &cp}, Body: &types.Body{}}})
		}
		mk("ParentHash.flip", func(h *types.EmptyBlockHeader) { h.ParentHash = flipHash(h.ParentHash, false) })
		mk("Height+1", func(h *types.EmptyBlockHeader) { h.Height++ })
		mk("Height-1", func(h *types.EmptyBlockHeader) { h.Height-- })
		mk("Root.flip", func(h *types.EmptyBlockHeader) { h.Root = flipHash(h.Root, true) })
		mk("Root.zero", func(h *types.EmptyBlockHeader) { h.Root = common.Hash{} })
		mk("IdentityRoot.flip", func(h *types.EmptyBlockHeader) { h.IdentityRoot = flipHash(h.IdentityRoot, false) })
		mk("BlockSeed.flip", func(h *types.EmptyBlockHeader) { h.BlockSeed[3] ^= 4 })
		mk("Time+1", func(h *types.EmptyBlockHeader) { h.Time++ })
		mk("Time-1", func(h *types.EmptyBlockHeader) { h.Time-- })
		mk("Time=parent", func(h *types.EmptyBlockHeader) { h.Time = parentTime })
		for _, x := range extremeTimes(parentTime) {
			x := x
			mk("Time="+x.name, func(h *types.EmptyBlockHeader) { h.Time = x.t })
		}
		for _, f := range persistentFlags {
			f := f
			mk(fmt.Sprintf("Flags^%d", f), func(h *types.EmptyBlockHeader) { h.Flags ^= f })
		}
		return out
	}
	mk := func(name string, f func(blk *types.Block, h *types.ProposedHeader)) {
		blk, h := cloneProposed(b)
		f(blk, h)
		out = append(out, tamper{name: name, blk: blk})
	}
	var oh *types.ProposedHeader
	if other != nil && other.Header.ProposedHeader != nil {
		oh = other.Header.ProposedHeader
	}
	mk("ParentHash.flip-first", func(_ *types.Block, h *types.ProposedHeader) { h.ParentHash = flipHash(h.ParentHash, false) })
	mk("ParentHash.flip-last", func(_ *types.Block, h *types.ProposedHeader) { h.ParentHash = flipHash(h.ParentHash, true) })
	mk("ParentHash.zero", func(_ *types.Block, h *types.ProposedHeader) { h.ParentHash = common.Hash{} })
	mk("Height+1", func(_ *types.Block, h *types.ProposedHeader) { h.Height++ })
	mk("Height-1", func(_ *types.Block, h *types.ProposedHeader) { h.Height-- })
	mk("Height=0", func(_ *types.Block, h *types.ProposedHeader) { h.Height = 0 })
	mk("Time=parent+MinBlockDelay-1", func(_ *types.Block, h *types.ProposedHeader) { h.Time = parentTime + 9 })
	mk("Time=parent", func(_ *types.Block, h *types.ProposedHeader) { h.Time = parentTime })
	mk("Time=now+MaxFutureBlockOffset+1", func(_ *types.Block, h *types.ProposedHeader) { h.Time = now + 121 })
	for _, x := range extremeTimes(parentTime) {
		x := x
		mk("Time="+x.name, func(_ *types.Block, h *types.ProposedHeader) { h.Time = x.t })
	}
	mk("TxHash.flip-first", func(_ *types.Block, h *types.ProposedHeader) { h.TxHash = flipHash(h.TxHash, false) })
	mk("TxHash.flip-last", func(_ *types.Block, h *types.ProposedHeader) { h.TxHash = flipHash(h.TxHash, true) })
	mk("TxHash.zero", func(_ *types.Block, h *types.ProposedHeader) {
		if h.TxHash == (common.Hash{}) {
			h.TxHash = common.Hash{1}
		} else {
			h.TxHash = common.Hash{}
		}
	})
	mk("ProposerPubKey.flip", func(_ *types.Block, h *types.ProposedHeader) { h.ProposerPubKey = flipBytes(h.ProposerPubKey, true) })
	mk("ProposerPubKey.nil", func(_ *types.Block, h *types.ProposedHeader) { h.ProposerPubKey = nil })
	mk("ProposerPubKey=other-identity", func(_ *types.Block, h *types.ProposedHeader) {
		k := world.PubKeyOf(world.V2)
		if bytes.Equal(k, h.ProposerPubKey) {
			k = world.PubKeyOf(world.V1)
		}
		h.ProposerPubKey = k
	})
	mk("ProposerPubKey=outsider", func(_ *types.Block, h *types.ProposedHeader) { h.ProposerPubKey = world.PubKeyOf(world.Z) })
	mk("Root.flip-first", func(_ *types.Block, h *types.ProposedHeader) { h.Root = flipHash(h.Root, false) })
	mk("Root.flip-last", func(_ *types.Block, h *types.ProposedHeader) { h.Root = flipHash(h.Root, true) })
	mk("Root.zero", func(_ *types.Block, h *types.ProposedHeader) { h.Root = common.Hash{} })
	mk("IdentityRoot.flip-first", func(_ *types.Block, h *types.ProposedHeader) { h.IdentityRoot = flipHash(h.IdentityRoot, false) })
	mk("IdentityRoot.flip-last", func(_ *types.Block, h *types.ProposedHeader) { h.IdentityRoot = flipHash(h.IdentityRoot, true) })
	mk("IdentityRoot.zero", func(_ *types.Block, h *types.ProposedHeader) { h.IdentityRoot = common.Hash{} })
	for _, f := range persistentFlags {
		f := f
		mk(fmt.Sprintf("Flags^%d", f), func(_ *types.Block, h *types.ProposedHeader) { h.Flags ^= f })
	}
	mk("IpfsHash.flip", func(_ *types.Block, h *types.ProposedHeader) { h.IpfsHash = flipBytes(h.IpfsHash, true) })
	mk("IpfsHash.toggle-nil", func(_ *types.Block, h *types.ProposedHeader) {
		if len(h.IpfsHash) == 0 {
			h.IpfsHash = []byte{1, 2, 3}
		} else {
			h.IpfsHash = nil
		}
	})
	mk("TxBloom.flip", func(_ *types.Block, h *types.ProposedHeader) { h.TxBloom = flipBytes(h.TxBloom, true) })
	mk("TxBloom.toggle-empty", func(_ *types.Block, h *types.ProposedHeader) {
		if len(h.TxBloom) == 0 {
			h.TxBloom = []byte{0xff}
		} else {
			h.TxBloom = []byte{}
		}
	})
	mk("BlockSeed.flip", func(_ *types.Block, h *types.ProposedHeader) { h.BlockSeed[5] ^= 2 })
	mk("SeedProof.flip", func(_ *types.Block, h *types.ProposedHeader) { h.SeedProof = flipBytes(h.SeedProof, true) })
	mk("SeedProof.truncate", func(_ *types.Block, h *types.ProposedHeader) {
		if len(h.SeedProof) > 1 {
			h.SeedProof = h.SeedProof[:len(h.SeedProof)-1]
		}
	})
	mk("SeedProof.nil", func(_ *types.Block, h *types.ProposedHeader) { h.SeedProof = nil })
	mk("FeePerGas+1", func(_ *types.Block, h *types.ProposedHeader) {
		if h.FeePerGas == nil {
			h.FeePerGas = big.NewInt(1)
		} else {
			h.FeePerGas = new(big.Int).Add(h.FeePerGas, big.NewInt(1))
		}
	})
	mk("FeePerGas*2", func(_ *types.Block, h *types.ProposedHeader) {
		if h.FeePerGas == nil || h.FeePerGas.Sign() == 0 {
			h.FeePerGas = big.NewInt(7)
		} else {
			h.FeePerGas = new(big.Int).Mul(h.FeePerGas, big.NewInt(2))
		}
	})
	mk("TxReceiptsCid.flip", func(_ *types.Block, h *types.ProposedHeader) { h.TxReceiptsCid = flipBytes(h.TxReceiptsCid, true) })
	mk("TxReceiptsCid.toggle-nil", func(_ *types.Block, h *types.ProposedHeader) {
		if len(h.TxReceiptsCid) == 0 {
			h.TxReceiptsCid = []byte{1, 2, 3}
		} else {
			h.TxReceiptsCid = nil
		}
	})
	mk("Upgrade=99", func(_ *types.Block, h *types.ProposedHeader) { h.Upgrade = 99 })
	if oh != nil {
		mk("Root=other-block", func(_ *types.Block, h *types.ProposedHeader) { h.Root = oh.Root })
		mk("IdentityRoot=other-block", func(_ *types.Block, h *types.ProposedHeader) { h.IdentityRoot = oh.IdentityRoot })
		mk("TxHash=other-block", func(_ *types.Block, h *types.ProposedHeader) { h.TxHash = oh.TxHash })
		mk("IpfsHash=other-block", func(_ *types.Block, h *types.ProposedHeader) { h.IpfsHash = oh.IpfsHash })
		mk("TxBloom=other-block", func(_ *types.Block, h *types.ProposedHeader) { h.TxBloom = oh.TxBloom })
		mk("BlockSeed=other-block", func(_ *types.Block, h *types.ProposedHeader) { h.BlockSeed = oh.BlockSeed })
		mk("SeedProof=other-block", func(_ *types.Block, h *types.ProposedHeader) { h.SeedProof = oh.SeedProof })
		mk("TxReceiptsCid=other-block", func(_ *types.Block, h *types.ProposedHeader) { h.TxReceiptsCid = oh.TxReceiptsCid })
		mk("ParentHash=other-block", func(_ *types.Block, h *types.ProposedHeader) { h.ParentHash = oh.ParentHash })
	}
	// body edits
	txs := b.Body.Transactions
	recompute := func(blk *types.Block, h *types.ProposedHeader) {
		h.TxHash = types.DeriveSha(types.Transactions(blk.Body.Transactions))
		c, _ := world.Net.Cid(blk.Body.ToBytes())
		h.IpfsHash = c.Bytes()
		if len(blk.Body.Transactions) == 0 {
			h.IpfsHash = nil
			if bb := blk.Body.ToBytes(); len(bb) > 0 {
				h.IpfsHash = c.Bytes()
			}
		}
	}
	body := func(name string, edit func(t []*types.Transaction) []*types.Transaction) {
		for _, rc := range []bool{false, true} {
			blk, h := cloneProposed(b)
			blk.Body.Transactions = edit(append([]*types.Transaction{}, txs...))
			n := "body." + name
			if rc {
				recompute(blk, h)
				n += "+recomputed-commitments"
			}
			out = append(out, tamper{name: n, blk: blk, rebuild: rc})
		}
	}
	for i := range txs {
		i := i
		body(fmt.Sprintf("drop[%d]", i), func(t []*types.Transaction) []*types.Transaction { return append(t[:i], t[i+1:]...) })
		body(fmt.Sprintf("duplicate[%d]", i), func(t []*types.Transaction) []*types.Transaction { return append(t, t[i]) })
		if i+1 < len(txs) {
			body(fmt.Sprintf("swap[%d,%d]", i, i+1), func(t []*types.Transaction) []*types.Transaction { t[i], t[i+1] = t[i+1], t[i]; return t })
		}
	}
	for j, x := range extra {
		x := x
		body(fmt.Sprintf("append-hostile[%d]", j), func(t []*types.Transaction) []*types.Transaction { return append(t, x) })
	}
	return out
}

func vcanon(r *replica.Replica) string {
	img := world.SharedImage(replica.Snapshot(r.DB))
	return fmt.Sprintf("img=%x root=%x idroot=%x v=%d idv=%d head=%x", img.Hash().Bytes()[:8], r.App.State.Root().Bytes()[:8], r.App.IdentityState.Root().Bytes()[:8],
		r.App.State.Version(), r.App.IdentityState.Version(), r.Chain.Head.Hash().Bytes()[:8])
}


func newModel(thorough bool) *chainprop.Model {
	m := &chainprop.Model{Menu: world.Menu()}
	m.Std()
	m.StdDrive()
	m.Acts = append(m.Acts, m.Drive("send X1->X2 1", "send X2 second", "online V2"), m.Drive("call contract0 transfer->X2 1 by owner X1", "send X2 second"))
	m.Singles(false)
	m.H.Proposed = func(t *chainprop.Trans) bool {
		c := t.C
		V, err := world.OpenAs(t.Opts, t.St.Img, t.Now, world.OtherKey(t.A.Opts.KeyIdx))
		if err != nil {
			panic(err)
		}
		parent := V.Chain.Head
		// hostile extras for the body-append operators: a foreign-epoch tx and an unaffordable tx
		b := world.NewB(V)
		extra := []*types.Transaction{
			b.Tx(world.Spec{From: world.X2, To: world.PA(world.X1), Type: types.SendTx, Amount: replica.Dna(1), EpochD: 1, Nonce: 1}),
			b.Tx(world.Spec{From: world.Z, To: world.PA(world.X1), Type: types.SendTx, Amount: replica.Dna(1)}),
		}
		// "value taken from another block": the nearest proposed ancestor (different parent by construction)
		var other *types.Block
		for h := parent.Height(); h >= 2 && other == nil; h-- {
			if ab := V.Chain.GetBlockByHeight(h); ab != nil && !ab.IsEmpty() {
				other = ab
			}
		}
		ops := operators(t.Block, other, parent.Time(), t.Now, extra)
		pre := vcanon(V)
		accepted := 0
		for _, op := range ops {
			if op.blk.Hash() == t.Block.Hash() && sameBody(op.blk, t.Block) {
				c.Count("noop_operators_skipped", 1)
				continue
			}
			c.Count("tampered_blocks_offered", 1)
			var verr error
			func() {
				defer func() {
					if p := recover(); p != nil {
						verr = fmt.Errorf("PANIC: %v", p)
					}
				}()
				replica.SetTime(t.Now)
				V.Activate()
				verr = V.Chain.AddBlock(op.blk, nil, collector.NewStatsCollector())
			}()
			if verr != nil && len(verr.Error()) > 5 && verr.Error()[:5] == "PANIC" {
				c.Violation("validation-panics:"+op.name, fmt.Sprintf("validating a tampered block (%s) panicked: %v", op.name, verr), chainprop.TxTypes(t.Block))
				return false
			}
			if verr == nil {
				// accepted: allowed only if the building path reproduces the block from its own inputs
				consistent := false
				if op.rebuild {
					consistent = rebuilds(t, op.blk)
				}
				if !consistent {
					c.Violation("tampered-block-accepted:"+opClass(op.name), fmt.Sprintf("block with tampering %q was accepted and inserted (height %d, %d txs)", op.name, op.blk.Height(), len(op.blk.Body.Transactions)), chainprop.TxTypes(t.Block))
					return false
				}
				accepted++
				c.Outcome("accepted-consistent:" + opClass(op.name))
				// fresh validator for the remaining operators
				if V, err = world.OpenAs(t.Opts, t.St.Img, t.Now, world.OtherKey(t.A.Opts.KeyIdx)); err != nil {
					panic(err)
				}
				continue
			}
			c.Outcome("rejected:" + chainprop.ErrClass(verr))
			if post := vcanon(V); post != pre {
				c.Violation("rejection-has-side-effects:"+opClass(op.name), fmt.Sprintf("rejecting a block with tampering %q changed the validator: %s -> %s", op.name, pre, post), nil)
				return false
			}
		}
		// the honest original is still insertable afterwards
		replica.SetTime(t.Now)
		if err := V.Add(t.Block); err != nil {
			c.Violation("original-rejected-after-tampering", "after rejecting the tampered variants the validator rejects the honest original: "+err.Error(), nil)
			return false
		}
		c.Count("honest_blocks", 1)
		if len(t.Block.Body.Transactions) > 0 {
			c.Sample(map[string]interface{}{"scenario": t.M.Scn[t.Scn], "trace": c.Labels(), "operators": len(ops), "accepted_as_consistent": accepted, "txs": len(t.Block.Body.Transactions)})
		}
		return true
	}
	return m
}

func sameBody(a, b *types.Block) bool {
	if len(a.Body.Transactions) != len(b.Body.Transactions) {
		return false
	}
	for i := range a.Body.Transactions {
		if a.Body.Transactions[i].Hash() != b.Body.Transactions[i].Hash() {
			return false
		}
	}
	return true
}

// rebuilds: does an honest proposer, given exactly T's body, time and key, produce T's derived fields?
func rebuilds(t *chainprop.Trans, T *types.Block) bool {
	h := T.Header.ProposedHeader
	key := -1
	for i := 0; i <= world.NEW2; i++ {
		if bytes.Equal(world.PubKeyOf(i), h.ProposerPubKey) {
			key = i
		}
	}
	if key < 0 {
		return false
	}
	P, err := world.OpenAs(t.Opts, t.St.Img, h.Time, key)
	if err != nil {
		return false
	}
	replica.SetTime(h.Time)
	R := P.Chain.VerifProposeBlockWithTxs([]byte{}, T.Body.Transactions).Block
	rh := R.Header.ProposedHeader
	return sameBody(R, T) && rh.Root == h.Root && rh.IdentityRoot == h.IdentityRoot && rh.TxHash == h.TxHash && bytes.Equal(rh.IpfsHash, h.IpfsHash) &&
		bytes.Equal(rh.TxBloom, h.TxBloom) && rh.Flags == h.Flags && bytes.Equal(rh.TxReceiptsCid, h.TxReceiptsCid) && rh.BlockSeed == h.BlockSeed && rh.Height == h.Height && rh.ParentHash == h.ParentHash
}

func opClass(n string) string {
	for i, ch := range n {
		if ch == '[' || ch == '^' || ch == '=' || ch == '+' && i > 0 && n[:i] != "Height" && n[:i] != "FeePerGas" && n[:i] != "empty.Height" && n[:i] != "empty.Time" {
			return n[:i]
		}
	}
	return n
}

var _ = crypto.Keccak256

func main() {
	run := report.New("C03")
	m := newModel(run.Thorough())
	if chainmc.IsWorker() {
		chainmc.WorkerMain(m)
		return
	}
	if run.Replay != "" {
		chainmc.ReplayFile(run, m)
		return
	}
	run.SetBudget(6*60e9, 20*60e9)
	depth := 2
	if run.Thorough() {
		depth = 3
	}
	chainmc.Explore(run, m, chainmc.Config{Depth: depth, Chunk: 8})
	run.Set("evaluations", run.Get("tampered_blocks_offered"))
	run.Set("distinct_nontrivial", run.Get("honest_blocks"))
	run.Assume = append(run.Assume, "the proposer's free choices (timestamp inside the window, offline flags, upgrade bits of the current target, absent fee rate) are not tampered with",
		"body edits with recomputed commitments are judged by the building path derived from the repository's own ProposeBlock")
	run.Finish("model_checking", "corpus = every honest block of a BFS over real block transitions (4 scenarios, driving alphabet + every singleton of the 80-template menu, proposed and empty blocks, receipts, identity-update, snapshot, ceremony-period and epoch-finishing blocks); for each block every tampering operator (~70 header operators: bit flips, +-1, nil/zero, value of another block, window violations, foreign keys; body drop/duplicate/swap/append-hostile with and without recomputed commitments) is offered to a validator replica via AddBlock; oracle: rejected unless the building path reproduces it; validator image/head/versions/roots unchanged after each rejection; original insertable afterwards")
}
