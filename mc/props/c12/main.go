// C12 — no message from the network can crash the node.
//
// Bounded-exhaustive enumeration of hostile inputs against the real receive path:
//  part 1: for every message code, a corpus of honest encodings built on populated chain
//          states x every byte-level mutation (truncations, 4 substitutions per position) and
//          every structural protobuf mutation (delete / duplicate / empty / resize a field,
//          extreme varints, inflated length prefixes, x3000 repetition, to depth 3), delivered
//          as a transport frame through the real IdenaGossipHandler.handle() of a node whose
//          components are real (pool, proposals, votes, flipper, key pool, chain); whatever
//          decode + IsValid lets through is also pushed through the consumers that run later
//          on other goroutines (block validation / insertion, header-range validation of the
//          downloader, flip queue consumer, tx validation in block mode).
//  part 2: the space of structurally valid transactions: every type x recipient shape x
//          amount / fee / tips shape x payload shape x signer class, validated in all three
//          modes and through processTxs (the block path, which has no recover).
//  part 3: transport frames: compression byte, s2 streams claiming large decoded lengths.
// Oracle: no panic, no hang, allocation in proportion to the frame.
package main

import (
	"fmt"
	"os"
	"runtime"
	"runtime/debug"
	"sort"
	"strings"
	"time"

	"github.com/idena-network/idena-go/blockchain/types"
	"github.com/idena-network/idena-go/core/ceremony"
	"github.com/idena-network/idena-go/pengings"
	"github.com/idena-network/idena-go/protocol"
	"github.com/idena-network/idena-go/stats/collector"
	"verif/mc/chainmc"
	"verif/mc/chainprop"
	"verif/mc/replica"
	"verif/mc/report"
	"verif/mc/shard"
	"verif/mc/world"
)

var _ = ceremony.LotterySeedLag

// ---------------------------------------------------------------- states

type baseState struct {
	name string
	opts replica.Opts
	img  replica.Image
	now  int64
}

func buildStates() []*baseState {
	m := &chainprop.Model{Menu: world.Menu()}
	rn, ro, rp := chainprop.RichScenario()
	cn, co, cp := chainprop.CeremonyScenario()
	g1 := world.GenesisG1()
	g1.WithCeremony = true
	m.Scn, m.Opts, m.Prefix = []string{"G1-genesis", rn, cn}, []replica.Opts{g1, ro, co}, [][][]string{nil, rp, cp}
	jump := chainprop.Action{Name: "jump", Jump: 1, Expand: true}
	m.Acts = []chainprop.Action{jump, m.Drive("cer:hash:G:good", "cer:hash:V1:good"), m.Drive("cer:short:G:good", "cer:long:G:good"), {Name: "empty-block", Empty: true, Expand: true}}
	c := &chainmc.Ctx{}
	var out []*baseState
	add := func(name string, scn int, st *chainmc.State) {
		out = append(out, &baseState{name: name, opts: m.Opts[scn], img: st.Img, now: st.Now})
	}
	add("G1 genesis", 0, m.Init(0))
	add("G2 rich (pool, invitee, contract)", 1, m.Init(1))
	// the previous round had no proposer: headers are judged against an empty block (no ProposedHeader)
	if e := m.Step(1, m.Init(1), 3, c); e != nil {
		add("G2 rich, head is an empty block", 1, e)
	} else {
		panic("state construction: empty block not enabled")
	}
	st := m.Init(2)
	step := func(a int) {
		nx := m.Step(2, st, a, c)
		if nx == nil {
			panic(fmt.Sprintf("state construction: action %d not enabled", a))
		}
		st = nx
	}
	step(0) // flip lottery
	add("ceremony: flip lottery", 2, st)
	step(0) // short session
	step(1)
	add("ceremony: short session (hashes in)", 2, st)
	step(0) // long session
	step(2)
	add("ceremony: long session (answers in)", 2, st)
	return out
}

// ---------------------------------------------------------------- node under test

type node struct {
	st        *baseState
	r         *replica.Replica
	n         *protocol.VerifNode
	proposals *pengings.Proposals
	votes     *pengings.Votes
	delivered int
}

func newNode(st *baseState) *node {
	r, err := world.Open(st.opts, st.img, st.now)
	if err != nil {
		panic(err)
	}
	votes := pengings.NewVotes(r.App, r.Bus, r.Offline, r.Upgrader)
	votes.Initialize(r.Chain.Head)
	proposals, _ := pengings.NewProposals(r.Chain, r.App, r.Offline, r.Upgrader, collector.NewStatsCollector())
	n := protocol.VerifNewNode(r.Chain, r.App, r.Ipfs, proposals, votes, r.Pool, r.Flipper, r.Bus, r.KeysPool)
	return &node{st: st, r: r, n: n, proposals: proposals, votes: votes}
}

// ---------------------------------------------------------------- judged execution

type verdict struct {
	panicKey string
	panicMsg string
	stack    string
	hang     bool
	alloc    uint64
}

func repoFrame(stack string) string {
	lines := strings.Split(stack, "\n")
	for i := 0; i+1 < len(lines); i++ {
		l := strings.TrimSpace(lines[i+1])
		if strings.HasPrefix(l, "/repo/") && !strings.Contains(l, "zz_verif") {
			fn := strings.TrimSpace(lines[i])
			if j := strings.LastIndex(fn, "("); j > 0 {
				fn = fn[:j]
			}
			if j := strings.LastIndex(fn, "/"); j >= 0 {
				fn = fn[j+1:]
			}
			file := strings.TrimPrefix(strings.Fields(l)[0], "/repo/")
			if j := strings.LastIndex(file, ":"); j > 0 {
				file = file[:j]
			}
			return file + ":" + fn
		}
	}
	return "?"
}

// strayGoroutine: a delivery of this process has hung; its goroutine is still running (and possibly allocating),
// so the allocation figures of later deliveries in this process would be polluted and are not taken any more.
var strayGoroutine bool

// slowDeliveries counts deliveries whose verdict came after the first 45 s of the watchdog (starvation, not a hang).
var slowDeliveries int

// guarded runs f with panic capture, a hang watchdog and (optionally) allocation accounting.
func guarded(measure bool, f func()) verdict {
	var v verdict
	var before runtime.MemStats
	if measure {
		runtime.ReadMemStats(&before)
	}
	done := make(chan struct{})
	go func() {
		defer close(done)
		defer func() {
			if p := recover(); p != nil {
				v.panicMsg = fmt.Sprint(p)
				v.stack = string(debug.Stack())
				v.panicKey = repoFrame(v.stack)
			}
		}()
		f()
	}()
	select {
	case <-done:
	case <-time.After(45 * time.Second):
		// no verdict yet. On an oversubscribed machine a delivery can be starved for that long (seen once: load
		// average 70 on 16 cores, the case replayed in milliseconds), and a hang proper never ends: wait on, and
		// call it a hang only if there is still no verdict after 5 minutes. A late verdict is counted, not reported.
		select {
		case <-done:
			slowDeliveries++
		case <-time.After(255 * time.Second):
			v.hang = true
			strayGoroutine = true
			return v
		}
	}
	if measure && !strayGoroutine {
		var after runtime.MemStats
		runtime.ReadMemStats(&after)
		v.alloc = after.TotalAlloc - before.TotalAlloc
	}
	return v
}

const allocSlack = 24 << 20 // 24 MiB + 64 x frame

type suite struct {
	out   *shard.Out
	nd    *node
	st    *baseState
	cases int
}

func (s *suite) fresh() {
	s.nd = newNode(s.st)
}

// deliver sends one frame through handle() and through the later consumers.
func (s *suite) deliver(code string, family, name string, frame []byte, payload []byte, measure bool) {
	if s.nd == nil || s.nd.delivered > 1500 {
		s.fresh()
	}
	s.nd.delivered++
	s.cases++
	nd := s.nd
	var herr error
	v := guarded(measure, func() {
		herr = nd.n.Deliver(frame)
		s.downstream(nd, code, payload)
	})
	s.out.Count("deliveries", 1)
	cls := "accepted"
	if herr != nil {
		cls = "rejected"
	}
	s.judge(v, code, family, name, frame, cls)
}

func (s *suite) judge(v verdict, code, family, name string, frame []byte, cls string) {
	what := fmt.Sprintf("state %q, message %s, mutation %s (%s), frame of %d bytes", s.st.name, code, name, family, len(frame))
	switch {
	case v.panicKey != "":
		msg := v.panicMsg
		if len(msg) > 140 {
			msg = msg[:140]
		}
		stack := v.stack
		if len(stack) > 5000 {
			stack = stack[:5000]
		}
		s.out.Violation("panic:"+code+":"+v.panicKey, "panic in "+v.panicKey+": "+msg+" | "+what, map[string]interface{}{"state": s.st.name, "code": code, "mutation": name, "frame_hex": hexs(frame), "stack": stack})
		s.out.Outcome(code + " PANIC " + v.panicKey)
		s.nd = nil // a panic may have left locks held
	case v.hang:
		s.out.Violation("hang:"+code+":"+family, "no verdict within 300 s | "+what, map[string]interface{}{"state": s.st.name, "code": code, "mutation": name, "frame_hex": hexs(frame)})
		s.out.Outcome(code + " HANG")
		s.nd = nil
	case v.alloc > allocSlack+64*uint64(len(frame)):
		s.out.Violation("alloc:"+code+":"+family, fmt.Sprintf("%d MiB allocated for a frame of %d bytes | %s", v.alloc>>20, len(frame), what), map[string]interface{}{"state": s.st.name, "code": code, "mutation": name, "frame_hex": hexs(frame)})
		s.out.Outcome(code + " ALLOC")
	default:
		s.out.Outcome(code + " " + cls)
	}
}

func hexs(b []byte) string {
	const max = 4096
	if len(b) > max {
		return fmt.Sprintf("%x...(%d bytes)", b[:max], len(b))
	}
	return fmt.Sprintf("%x", b)
}

// downstream: what other goroutines of the node do later with an accepted object.
func (s *suite) downstream(nd *node, code string, payload []byte) {
	switch code {
	case "Block", "ProposeBlock":
		var blk *types.Block
		if code == "Block" {
			b := new(types.Block)
			if b.FromBytes(payload) != nil || !b.IsValid() {
				return
			}
			blk = b
		} else {
			p := new(types.BlockProposal)
			if p.FromBytes(payload) != nil || !p.IsValid() {
				return
			}
			blk = p.Block
		}
		s.out.Count("blocks_validated", 1)
		if _, err := nd.r.Chain.ValidateBlock(blk, nil, collector.NewStatsCollector()); err == nil {
			s.out.Count("blocks_valid", 1)
		}
		// the downloader / fork resolver insert without the proposal checks
		if err := nd.r.Chain.AddBlock(blk, nil, collector.NewStatsCollector()); err == nil {
			s.out.Count("blocks_inserted", 1)
			s.nd = nil // state advanced: continue on a fresh node
		}
		nd.proposals.ProcessPendingBlocks()
	case "BlocksRange":
		if n, _ := nd.n.ValidateRange(payload); n > 0 {
			s.out.Count("range_headers_validated", n)
		}
	case "ProposeProof":
		nd.proposals.ProcessPendingProofs()
	case "FlipBody":
		f := new(types.Flip)
		if f.FromBytes(payload) == nil && f.IsValid() {
			s.out.Count("flips_consumed", 1)
			nd.r.Flipper.VerifAddNewFlip(f)
		}
	case "NewTx":
		tx := new(types.Transaction)
		if tx.FromBytes(payload) == nil {
			s.out.Count("txs_block_mode", 1)
			validateAllModes(nd.r, tx)
		}
	}
}

// ---------------------------------------------------------------- part 1 driver

type corpusItem struct {
	code    string
	name    string
	payload []byte
	plain   bool
}

func runMessages(st *baseState, info shard.Info, out *shard.Out, thorough bool, idx *int) {
	s := &suite{out: out, st: st}
	honest := newNode(st)
	items := buildCorpus(honest)
	out.Count("corpus_items", 0)
	for _, it := range items {
		code := protocol.VerifCodes[it.code]
		// the honest encoding itself
		(*idx)++
		if info.Mine(*idx) {
			if it.code == "BlocksRange" {
				s.fresh()
				s.nd.n.ExpectBatch(7)
			}
			s.deliver(it.code, "honest", it.name, protocol.VerifFrame(code, it.payload), it.payload, true)
			out.Count("corpus_items", 1)
		}
		if it.plain {
			continue
		}
		depth := 3
		muts := structMutants(it.payload, depth, "")
		for _, m := range muts {
			(*idx)++
			if !info.Mine(*idx) {
				continue
			}
			if it.code == "BlocksRange" && s.nd != nil {
				s.nd.n.ExpectBatch(7)
			}
			s.deliver(it.code, "struct", it.name+"/"+m.name, protocol.VerifFrame(code, m.data), m.data, true)
		}
		out.Count("struct_mutants", 0)
		for _, m := range byteMutants(it.payload, thorough) {
			(*idx)++
			if !info.Mine(*idx) {
				continue
			}
			if it.code == "BlocksRange" && s.nd != nil {
				s.nd.n.ExpectBatch(7)
			}
			s.deliver(it.code, "byte", it.name+"/"+m.name, protocol.VerifFrame(code, m.data), m.data, false)
		}
		// the same payload under every other message code (type confusion)
		for other, oc := range protocol.VerifCodes {
			if other == it.code || other == "Handshake" {
				continue
			}
			(*idx)++
			if !info.Mine(*idx) {
				continue
			}
			s.deliver(other, "confusion", it.name+" as "+other, protocol.VerifFrame(oc, it.payload), it.payload, false)
		}
	}
}

func main() {
	run := report.New("C12")
	if run.Replay != "" {
		replay(run)
		return
	}
	run.SetBudget(8*60e9, 25*60e9)
	thorough := run.Thorough()
	shard.Run(run, 0, nil, func(info shard.Info, out *shard.Out) {
		states := buildStates()
		idx := 0
		for _, st := range states {
			runMessages(st, info, out, thorough, &idx)
		}
		for _, st := range states {
			runTxSpace(st, info, out, thorough, &idx)
		}
		if info.I == 0 {
			runFrames(states[1], out)
		}
		out.Count("cases_enumerated", 0)
		out.Count("slow_deliveries_over_45s", slowDeliveries)
	})
	keys := []string{}
	for k := range protocol.VerifCodes {
		keys = append(keys, k)
	}
	sort.Strings(keys)
	run.Set("message_codes", keys)
	run.Set("evaluations", run.Get("deliveries")+run.Get("tx_validations"))
	run.Set("states", run.Get("deliveries")+run.Get("tx_objects"))
	run.Set("transitions", run.Get("deliveries")+run.Get("tx_validations"))
	run.Set("traces_validated_against_impl", run.Get("deliveries")+run.Get("tx_validations"))
	run.Set("distinct_nontrivial", run.Get("deliveries")+run.Get("tx_objects"))
	run.Assume = append(run.Assume, "hang = no verdict within 300 s of wall clock for one delivery (deliveries take milliseconds; a verdict that comes after 45 s is counted as slow_deliveries_over_45s and not reported - the first version of the watchdog, 45 s flat, raised one false alarm on an oversubscribed machine)",
		"allocation rule: more than 24 MiB + 64 x frame length allocated during one delivery (runtime.MemStats.TotalAlloc delta, one delivery at a time per process)",
		"async hand-offs of the node (AsyncTxPool, flip queue, block cache consumers, downloader) are replaced by direct calls of the consumer on the same goroutine so that a panic is attributed to the message")
	run.Finish("exploration", "every message code x honest corpus (5 chain states incl. three ceremony periods) x {all truncations, 4 substitutions per byte position (first 600 + last 100 positions for long messages), all structural protobuf mutations to depth 3 (delete, duplicate, empty, one byte, half, -1, doubled, +1, 5 inflated length claims, wire-type confusion, 12 extreme varints, x3000 repetition, unknown fields), every payload under every other code} through the real handle() and the later consumers; transaction space: type x recipient x amount x fee x tips x payload x signer in 3 validation modes + processTxs; transport frames")
	_ = os.Stdout
}
