package main

// Part 2: the space of structurally valid, semantically hostile transactions.
// Part 3: transport frames.

import (
	"encoding/json"
	"fmt"
	"math/big"
	"os"

	"github.com/idena-network/idena-go/blockchain/attachments"
	"github.com/idena-network/idena-go/blockchain/fee"
	"github.com/idena-network/idena-go/blockchain/types"
	"github.com/idena-network/idena-go/blockchain/validation"
	"github.com/idena-network/idena-go/common"
	"github.com/idena-network/idena-go/protocol"
	"github.com/klauspost/compress/s2"
	"verif/mc/replica"
	"verif/mc/report"
	"verif/mc/shard"
	"verif/mc/world"
)

var allTxTypes = []types.TxType{
	types.SendTx, types.ActivationTx, types.InviteTx, types.KillTx, types.SubmitFlipTx, types.SubmitAnswersHashTx,
	types.SubmitShortAnswersTx, types.SubmitLongAnswersTx, types.EvidenceTx, types.OnlineStatusTx, types.KillInviteeTx,
	types.ChangeGodAddressTx, types.BurnTx, types.ChangeProfileTx, types.DeleteFlipTx, types.DeployContractTx,
	types.CallContractTx, types.TerminateContractTx, types.DelegateTx, types.UndelegateTx, types.KillDelegatorTx,
	types.StoreToIpfsTx, types.ReplenishStakeTx, types.TxType(0x3f), types.TxType(0xffff),
}

func validateAllModes(r *replica.Replica, tx *types.Transaction) {
	app := r.Chain.VerifAppState()
	ro, err := app.Readonly(r.Chain.Head.Height())
	if err != nil {
		return
	}
	minFee := fee.GetFeePerGasForNetwork(ro.ValidatorsCache.NetworkSize())
	for _, mode := range []validation.TxType{validation.InBlockTx, validation.InboundTx, validation.MempoolTx} {
		validation.ValidateTx(ro, tx, minFee, mode)
	}
	// the block path: processTxs on a check state (no recover there)
	hdr := &types.Header{ProposedHeader: &types.ProposedHeader{Height: r.Chain.Head.Height() + 1, ParentHash: r.Chain.Head.Hash(), Time: r.Chain.Head.Time() + 20, ProposerPubKey: r.Sec.GetPubKey()}}
	r.Chain.VerifProcessTxs([]*types.Transaction{tx}, hdr)
}

type txShape struct {
	Type    types.TxType
	To      string
	Amount  string
	MaxFee  string
	Tips    string
	Payload string
	Signer  int
}

func (s txShape) String() string {
	return fmt.Sprintf("type=%d to=%s amount=%s maxFee=%s tips=%s payload=%s signer=%s", s.Type, s.To, s.Amount, s.MaxFee, s.Tips, s.Payload, world.ActorNames[s.Signer])
}

func bigOf(name string) *big.Int {
	switch name {
	case "nil":
		return nil
	case "0":
		return big.NewInt(0)
	case "1":
		return replica.Dna(1)
	case "huge":
		return new(big.Int).Lsh(big.NewInt(1), 200)
	case "neg":
		return big.NewInt(-5)
	}
	panic(name)
}

func payloadsFor(r *replica.Replica, t types.TxType) map[string][]byte {
	p := map[string][]byte{
		"nil":     nil,
		"empty":   {},
		"1byte":   {7},
		"garbage": make([]byte, 300),
		"pubkey":  world.PubKeyOf(world.NEW),
		"big":     make([]byte, 100*1024),
	}
	for i := range p["garbage"] {
		p["garbage"][i] = byte(i*7 + 1)
	}
	p["online"] = attachments.CreateOnlineStatusAttachment(true)
	p["flipsubmit"] = attachments.CreateFlipSubmitAttachment([]byte("cid"), 1)
	p["call"] = world.CallPayload("transfer", world.A(world.X2).Bytes(), replica.Dna(1).Bytes())
	p["deploy"] = world.TimeLockDeploy(0)
	p["terminate"] = world.TerminatePayload(world.A(world.X1).Bytes())
	p["burn"] = attachments.CreateBurnAttachment("k")
	p["short"] = attachments.CreateShortAnswerAttachment([]byte{1, 2, 3}, 5, 0)
	p["hash32"] = make([]byte, 32)
	if a := attachments.CreateDeployContractAttachment(common.Hash{}, []byte{0, 1, 2}, nil); a != nil {
		b, _ := a.ToBytes()
		p["deploywasm"] = b
	}
	return p
}

func runTxSpace(st *baseState, info shard.Info, out *shard.Out, thorough bool, idx *int) {
	r, err := world.Open(st.opts, st.img, st.now)
	if err != nil {
		panic(err)
	}
	contract := world.NewB(r).Contract(0)
	tos := []string{"nil", "zero", "self", "V1", "NEW", "K", "god"}
	if contract != nil {
		tos = append(tos, "contract")
	}
	amounts := []string{"nil", "0", "1", "huge"}
	fees := []string{"nil", "1", "huge"}
	tipss := []string{"nil", "1"}
	signers := []int{world.G, world.V1, world.N1, world.C1, world.I1, world.X1, world.K, world.Z}
	if !thorough {
		signers = []int{world.G, world.V1, world.C1, world.I1, world.X1, world.Z}
		fees = []string{"nil", "huge"}
	}
	s := &suite{out: out, st: st}
	for _, t := range allTxTypes {
		pls := payloadsFor(r, t)
		var plNames []string
		for k := range pls {
			plNames = append(plNames, k)
		}
		sortStrings(plNames)
		for _, to := range tos {
			for _, am := range amounts {
				for _, mf := range fees {
					for _, tp := range tipss {
						for _, pl := range plNames {
							for _, sg := range signers {
								(*idx)++
								if !info.Mine(*idx) {
									continue
								}
								sh := txShape{t, to, am, mf, tp, pl, sg}
								tx := buildShape(r, sh, pls[pl], contract)
								out.Count("tx_objects", 1)
								v := guarded(false, func() {
									validateAllModes(r, tx)
									r.Pool.AddExternalTxs(validation.InboundTx, tx)
								})
								out.Count("tx_validations", 5)
								if v.panicKey != "" || v.hang {
									raw, _ := tx.ToBytes()
									s.judge(v, "tx", "txspace", sh.String(), raw, "")
									// fresh replica: the panic may have left locks held
									if r, err = world.Open(st.opts, st.img, st.now); err != nil {
										panic(err)
									}
								} else {
									out.Outcome("tx verdict")
								}
							}
						}
					}
				}
			}
		}
	}
}

func sortStrings(s []string) {
	for i := range s {
		for j := i + 1; j < len(s); j++ {
			if s[j] < s[i] {
				s[i], s[j] = s[j], s[i]
			}
		}
	}
}

func buildShape(r *replica.Replica, s txShape, payload []byte, contract *common.Address) *types.Transaction {
	st := r.App.State
	a := world.A(s.Signer)
	n := st.GetNonce(a)
	if st.GetEpoch(a) < st.Epoch() {
		n = 0
	}
	tx := &types.Transaction{Type: s.Type, Epoch: st.Epoch(), AccountNonce: n + 1, Amount: bigOf(s.Amount), MaxFee: bigOf(s.MaxFee), Tips: bigOf(s.Tips), Payload: payload}
	switch s.To {
	case "nil":
	case "zero":
		tx.To = &common.Address{}
	case "self":
		tx.To = &a
	case "god":
		g := st.GodAddress()
		tx.To = &g
	case "contract":
		tx.To = contract
	default:
		for i, nme := range world.ActorNames {
			if nme == s.To {
				tx.To = world.PA(i)
			}
		}
	}
	signed, err := types.SignTx(tx, replica.Key(s.Signer))
	if err != nil {
		panic(err)
	}
	return signed
}

// runFrames: transport level. Compression byte values and s2 streams whose header claims a
// decoded length far beyond the frame.
func runFrames(st *baseState, out *shard.Out) {
	s := &suite{out: out, st: st}
	honest := newNode(st)
	items := buildCorpus(honest)
	var tx []byte
	for _, it := range items {
		if it.code == "NewTx" {
			tx = it.payload
			break
		}
	}
	inner := protocol.VerifFrame(protocol.VerifCodes["NewTx"], tx)[1:] // Msg bytes
	// every compression byte value with raw and s2 bodies
	for c := 0; c < 256; c++ {
		s.deliver("frame", "compression", fmt.Sprintf("compression byte %d, raw body", c), append([]byte{byte(c)}, inner...), nil, true)
		s.deliver("frame", "compression", fmt.Sprintf("compression byte %d, s2 body", c), append([]byte{byte(c)}, s2.Encode(nil, inner)...), nil, true)
	}
	s.deliver("frame", "compression", "empty frame", []byte{}, nil, true)
	// s2 block format: uvarint decoded length, then chunks. Claim lengths from 1 KiB to 4 GiB - 1
	// with no, short and inconsistent bodies
	bodies := map[string][]byte{"no body": nil, "one literal byte": {0x00, 0x41}, "honest body": s2.Encode(nil, inner)[1:]}
	for _, claim := range []uint64{1 << 10, 1 << 20, 16 << 20, 64 << 20, 256 << 20, 1 << 30, 2 << 30, 1<<32 - 1, 1 << 32, 1<<63 - 1} {
		for bn, body := range bodies {
			hdr := uv(claim)
			frame := append(append([]byte{1}, hdr...), body...)
			s.deliver("frame", "s2-claimed-length", fmt.Sprintf("s2 stream claiming %d decoded bytes, %s", claim, bn), frame, nil, true)
		}
	}
	// a block range that answers an open request for 2 blocks with 3, 5 and 1 blocks
	for _, it := range items {
		if it.code == "BlocksRange" && it.name == "canonical headers" {
			for _, asked := range []int{1, 2, 3} {
				s.fresh()
				s.nd.n.ExpectBatchOf(7, asked)
				s.deliver("BlocksRange", "range-longer-than-requested", fmt.Sprintf("%s answering a request for %d block(s)", it.name, asked), protocol.VerifFrame(protocol.VerifCodes["BlocksRange"], it.payload), it.payload, false)
			}
		}
	}
	out.Count("frame_cases", s.cases)
}

// replay re-executes one recorded case (frame or tx) on a fresh node of the recorded state.
func replay(run *report.Run) {
	b, err := os.ReadFile(run.Replay)
	if err != nil {
		report.HarnessError("cannot read replay: %v", err)
	}
	var f struct {
		Key    string `json:"key"`
		Replay struct {
			State    string `json:"state"`
			Code     string `json:"code"`
			Mutation string `json:"mutation"`
			Frame    string `json:"frame_hex"`
		} `json:"replay"`
	}
	if err := json.Unmarshal(b, &f); err != nil {
		report.HarnessError("bad replay file: %v", err)
	}
	var st *baseState
	for _, s := range buildStates() {
		if s.name == f.Replay.State {
			st = s
		}
	}
	if st == nil {
		report.HarnessError("unknown state %q", f.Replay.State)
	}
	var frame []byte
	if _, err := fmt.Sscanf(f.Replay.Frame, "%x", &frame); err != nil {
		report.HarnessError("frame not replayable (truncated in the record): %v", err)
	}
	out := &shard.Out{Cnt: map[string]int{}, Outc: map[string]int{}}
	s := &suite{out: out, st: st}
	if f.Replay.Code == "tx" {
		tx := new(types.Transaction)
		if err := tx.FromBytes(frame); err != nil {
			report.HarnessError("tx does not decode: %v", err)
		}
		r, _ := world.Open(st.opts, st.img, st.now)
		v := guarded(false, func() {
			validateAllModes(r, tx)
			r.Pool.AddExternalTxs(validation.InboundTx, tx)
		})
		s.judge(v, "tx", "txspace", f.Replay.Mutation, frame, "")
	} else {
		s.fresh()
		s.nd.n.ExpectBatch(7)
		// payload for the downstream consumers = what handle() sees after unframing
		var payload []byte
		if data, err := protocol.Decode(frame); err == nil {
			m := new(protocol.Msg)
			if m.FromBytes(data) == nil {
				payload = m.Payload
			}
		}
		s.deliver(f.Replay.Code, "replay", f.Replay.Mutation, frame, payload, true)
	}
	for _, v := range out.Viol {
		fmt.Printf("REPRODUCED key=%s\n  %s\n", v.Key, v.What)
	}
	if len(out.Viol) == 0 {
		fmt.Println("replay finished without violation")
		os.Exit(0)
	}
	os.Exit(1)
}
