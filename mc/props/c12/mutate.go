package main

// Mutation operators over encoded messages. All of them are enumerated exhaustively within the
// stated position / depth bounds (no sampling): byte level (truncations, substitutions) and
// protobuf structure level (delete / duplicate / empty a field occurrence, extreme varints,
// inflated or shrunk length prefixes), recursively into embedded messages.

import (
	"encoding/binary"
	"fmt"
)

type mutant struct {
	name string
	data []byte
}

const maxSubstPositions = 700

// byteMutants: every truncation and 4 substitutions per position (positions bounded).
func byteMutants(b []byte, thorough bool) []mutant {
	var out []mutant
	step := 1
	if len(b) > 4096 {
		step = len(b) / 2048
	}
	for i := 0; i < len(b); i += step {
		out = append(out, mutant{fmt.Sprintf("trunc@%d", i), append([]byte{}, b[:i]...)})
	}
	pos := map[int]bool{}
	limit := maxSubstPositions
	if thorough {
		limit = 4000
	}
	if len(b) <= limit {
		for i := range b {
			pos[i] = true
		}
	} else {
		for i := 0; i < limit*6/7; i++ {
			pos[i] = true
		}
		for i := len(b) - limit/7; i < len(b); i++ {
			pos[i] = true
		}
	}
	for i := 0; i < len(b); i++ {
		if !pos[i] {
			continue
		}
		for _, v := range []byte{0x00, 0xff, b[i] ^ 0x01, b[i] ^ 0x80} {
			if v == b[i] {
				continue
			}
			c := append([]byte{}, b...)
			c[i] = v
			out = append(out, mutant{fmt.Sprintf("subst@%d=%02x", i, v), c})
		}
	}
	return out
}

// ---- protobuf wire level

type pbField struct {
	start, end int // whole field occurrence in the parent buffer
	num        int
	wt         int
	valStart   int // for wt 2: start of the content (after the length prefix)
	varint     uint64
}

func parsePB(b []byte) ([]pbField, bool) {
	var fs []pbField
	i := 0
	for i < len(b) {
		tag, n := binary.Uvarint(b[i:])
		if n <= 0 {
			return nil, false
		}
		f := pbField{start: i, num: int(tag >> 3), wt: int(tag & 7)}
		if f.num == 0 {
			return nil, false
		}
		i += n
		switch f.wt {
		case 0:
			v, n := binary.Uvarint(b[i:])
			if n <= 0 {
				return nil, false
			}
			f.varint = v
			i += n
		case 1:
			i += 8
		case 5:
			i += 4
		case 2:
			l, n := binary.Uvarint(b[i:])
			if n <= 0 {
				return nil, false
			}
			i += n
			f.valStart = i
			if l > uint64(len(b)-i) {
				return nil, false
			}
			i += int(l)
		default:
			return nil, false
		}
		if i > len(b) {
			return nil, false
		}
		f.end = i
		fs = append(fs, f)
	}
	return fs, true
}

func uv(v uint64) []byte {
	var buf [10]byte
	n := binary.PutUvarint(buf[:], v)
	return append([]byte{}, buf[:n]...)
}

func tagBytes(num, wt int) []byte { return uv(uint64(num)<<3 | uint64(wt)) }

func splice(b []byte, start, end int, repl []byte) []byte {
	out := make([]byte, 0, len(b)-(end-start)+len(repl))
	out = append(out, b[:start]...)
	out = append(out, repl...)
	return append(out, b[end:]...)
}

func lenDelim(num int, content []byte) []byte {
	return append(append(tagBytes(num, 2), uv(uint64(len(content)))...), content...)
}

var extremeVarints = []uint64{0, 1, 2, 255, 1 << 16, 1<<31 - 1, 1 << 31, 1<<32 - 1, 1 << 32, 1<<63 - 1, 1 << 63, 1<<64 - 1}

// structMutants enumerates structural mutations of a protobuf message, recursing into
// length-delimited fields that parse as messages themselves (depth bounded).
func structMutants(b []byte, depth int, path string) []mutant {
	fs, ok := parsePB(b)
	if !ok || len(fs) == 0 {
		return nil
	}
	var out []mutant
	add := func(name string, d []byte) { out = append(out, mutant{path + name, d}) }
	for idx, f := range fs {
		id := fmt.Sprintf("f%d#%d", f.num, idx)
		add(id+":delete", splice(b, f.start, f.end, nil))
		add(id+":duplicate", splice(b, f.end, f.end, b[f.start:f.end]))
		switch f.wt {
		case 0:
			for _, v := range extremeVarints {
				if v != f.varint {
					add(fmt.Sprintf("%s:varint=%d", id, v), splice(b, f.start, f.end, append(tagBytes(f.num, 0), uv(v)...)))
				}
			}
			for k := uint(0); k < 12; k++ { // every single-bit flip in the low 12 bits (flag words)
				add(fmt.Sprintf("%s:bit%d", id, k), splice(b, f.start, f.end, append(tagBytes(f.num, 0), uv(f.varint^(1<<k))...)))
			}
			// same field number as bytes (wire type confusion)
			add(id+":as-bytes", splice(b, f.start, f.end, lenDelim(f.num, []byte{1, 2, 3})))
		case 2:
			content := b[f.valStart:f.end]
			add(id+":empty", splice(b, f.start, f.end, lenDelim(f.num, nil)))
			add(id+":onebyte", splice(b, f.start, f.end, lenDelim(f.num, []byte{0x7f})))
			if len(content) > 1 {
				add(id+":half", splice(b, f.start, f.end, lenDelim(f.num, content[:len(content)/2])))
				add(id+":minus1", splice(b, f.start, f.end, lenDelim(f.num, content[:len(content)-1])))
			}
			if len(content) < 1<<16 {
				add(id+":doubled", splice(b, f.start, f.end, lenDelim(f.num, append(append([]byte{}, content...), content...))))
				add(id+":plus1", splice(b, f.start, f.end, lenDelim(f.num, append(append([]byte{}, content...), 0))))
			}
			// value patterns of the same length: all zero, all ones, a zeroed 32-byte window (scalars and
			// coordinates of proofs and signatures are 32-byte words), and the short lengths 3 and 7
			if len(content) > 0 {
				fill := func(from, to int, v byte) []byte {
					c := append([]byte{}, content...)
					for i := from; i < to && i < len(c); i++ {
						c[i] = v
					}
					return c
				}
				add(id+":zeros", splice(b, f.start, f.end, lenDelim(f.num, fill(0, len(content), 0))))
				add(id+":ones", splice(b, f.start, f.end, lenDelim(f.num, fill(0, len(content), 0xff))))
				if len(content) >= 64 {
					for w := 0; w+32 <= len(content) && w < 128; w += 32 {
						add(fmt.Sprintf("%s:zero[%d:%d]", id, w, w+32), splice(b, f.start, f.end, lenDelim(f.num, fill(w, w+32, 0))))
					}
				}
			}
			for _, n := range []int{3, 7} {
				if len(content) != n {
					add(fmt.Sprintf("%s:len%d", id, n), splice(b, f.start, f.end, lenDelim(f.num, make([]byte, n))))
				}
			}
			// length prefix claims more than is there (mismatched length)
			for _, claim := range []uint64{uint64(len(content)) + 1, 1 << 20, 1 << 31, 1<<32 - 1, 1<<63 - 1} {
				add(fmt.Sprintf("%s:claims=%d", id, claim), splice(b, f.start, f.end, append(append(tagBytes(f.num, 2), uv(claim)...), content...)))
			}
			add(id+":as-varint", splice(b, f.start, f.end, append(tagBytes(f.num, 0), uv(1<<40)...)))
			// many copies of a repeated element (oversized count)
			if len(content) <= 64 {
				rep := make([]byte, 0, 3000*(f.end-f.start))
				for k := 0; k < 3000; k++ {
					rep = append(rep, b[f.start:f.end]...)
				}
				add(id+":x3000", splice(b, f.end, f.end, rep))
			}
			if depth > 0 && len(content) > 0 {
				for _, m := range structMutants(content, depth-1, path+id+"/") {
					out = append(out, mutant{m.name, splice(b, f.start, f.end, lenDelim(f.num, m.data))})
				}
			}
		}
	}
	// fields that the honest encoding omits (zero values, nil optionals): insert them
	present := map[int]bool{}
	maxNum := 0
	for _, f := range fs {
		present[f.num] = true
		if f.num > maxNum {
			maxNum = f.num
		}
	}
	for k := 1; k <= maxNum+4 && k <= 40; k++ {
		if present[k] {
			continue
		}
		// every single bit of a 12-bit flag word, one two-bit combination, and three large values
		for _, v := range []uint64{1, 2, 4, 8, 16, 32, 64, 128, 256, 512, 1024, 2048, 384, 1 << 20, 1<<32 - 1, 1<<64 - 1} {
			add(fmt.Sprintf("insert:f%d:varint=%d", k, v), append(append([]byte{}, b...), append(tagBytes(k, 0), uv(v)...)...))
		}
		add(fmt.Sprintf("insert:f%d:bytes20", k), append(append([]byte{}, b...), lenDelim(k, make([]byte, 20))...))
		add(fmt.Sprintf("insert:f%d:bytes1", k), append(append([]byte{}, b...), lenDelim(k, []byte{1})...))
		add(fmt.Sprintf("insert:f%d:bytes0", k), append(append([]byte{}, b...), lenDelim(k, nil)...))
	}
	// unknown extra fields
	add("extra:f99varint", append(append([]byte{}, b...), append(tagBytes(99, 0), uv(7)...)...))
	add("extra:f1bytes", append(append([]byte{}, b...), lenDelim(1, []byte{9, 9, 9})...))
	return out
}
