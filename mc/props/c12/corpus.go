package main

// Honest corpus: one or more real encodings per message code, built by an honest node on the
// given chain state (so that they pass decoding and, where possible, validation).

import (
	"bytes"
	"fmt"
	"github.com/golang/protobuf/proto"
	"github.com/idena-network/idena-go/blockchain/types"
	"github.com/idena-network/idena-go/common"
	"github.com/idena-network/idena-go/core/state/snapshot"
	"github.com/idena-network/idena-go/crypto"
	models "github.com/idena-network/idena-go/protobuf"
	"github.com/idena-network/idena-go/protocol"
	"verif/mc/replica"
	"verif/mc/world"
)

func mustBytes(b []byte, err error) []byte {
	if err != nil {
		panic(err)
	}
	return b
}

func buildCorpus(nd *node) []corpusItem {
	r := nd.r
	var items []corpusItem
	add := func(code, name string, payload []byte) {
		if payload != nil {
			items = append(items, corpusItem{code: code, name: name, payload: payload})
		}
	}
	// delivered as they are, not mutated further (the mutations of the plain proposal cover the byte level)
	addPlain := func(code, name string, payload []byte) {
		items = append(items, corpusItem{code: code, name: name, payload: payload, plain: true})
	}
	// transactions: every menu template that builds on this state (each tx type several times)
	b := world.NewB(r)
	seenType := map[types.TxType]int{}
	var someTxs []*types.Transaction
	for _, t := range world.Menu() {
		tx := t.Build(b)
		if tx == nil {
			continue
		}
		if seenType[tx.Type] >= 2 {
			continue
		}
		seenType[tx.Type]++
		someTxs = append(someTxs, tx)
		add("NewTx", "tx:"+t.Name, mustBytes(tx.ToBytes()))
	}
	for _, n := range []string{"cer:hash:G:good", "cer:short:G:good", "cer:long:G:good", "cer:evidence:G:all", "submitFlip V1 0", "online V1", "delegate D1->P", "invite G->NEW 1", "kill V2", "killDelegator P->D1"} {
		if t := world.Dyn(n); t != nil {
			if tx := t.Build(world.NewB(r)); tx != nil {
				add("NewTx", "tx:"+n, mustBytes(tx.ToBytes()))
				someTxs = append(someTxs, tx)
			}
		}
	}
	// a proposed block with transactions, its proposal, an empty block
	world.Submit(r, someTxs[:min(len(someTxs), 6)])
	_, proof := r.Chain.GetProposerSortition()
	now := r.Chain.Head.Time() + 20
	replica.SetTime(now)
	prop := r.Chain.ProposeBlock(proof)
	add("Block", "proposed block", mustBytes(prop.Block.ToBytes()))
	add("ProposeBlock", "block proposal", mustBytes(prop.ToBytes()))
	empty := r.Empty()
	add("Block", "empty block", mustBytes(empty.ToBytes()))
	// honestly signed but semantically hostile block proposals: the proposer's own block with one header flag bit
	// toggled and every kind of OfflineAddr (absent, an online validator, an online pool, an unknown address),
	// re-signed by the proposer - the message passes the gossip-level IsValid() and reaches the proposal validators
	// (ValidateHeader, OfflineDetector.ValidateBlock, ...) on the peer goroutine
	if ph := prop.Block.Header.ProposedHeader; ph != nil {
		addrOf := func(i int) *common.Address { a := world.A(i); return &a }
		unknown := common.Address{0xee, 0x01}
		offs := []struct {
			n string
			a *common.Address
		}{{"no offline addr", nil}, {"offline addr V1", addrOf(world.V1)}, {"offline addr V2", addrOf(world.V2)}, {"offline addr P", addrOf(world.P)}, {"offline addr unknown", &unknown}}
		for bit := uint(0); bit < 12; bit++ {
			for _, oa := range offs {
				if bit >= 10 && oa.a != nil && oa.n != "offline addr V1" {
					continue
				}
				cp := *ph
				cp.Flags = ph.Flags ^ types.BlockFlag(1<<bit)
				cp.OfflineAddr = oa.a
				hp := &types.BlockProposal{Block: &types.Block{Header: &types.Header{ProposedHeader: &cp}, Body: prop.Block.Body}, Proof: proof}
				hh := crypto.SignatureHash(hp)
				hp.Signature = r.Sec.Sign(hh[:])
				addPlain("ProposeBlock", fmt.Sprintf("honestly signed proposal, flag bit %d toggled, %s", bit, oa.n), mustBytes(hp.ToBytes()))
			}
		}
	}
	pp := &types.ProofProposal{Proof: proof, Round: prop.Height()}
	h := crypto.SignatureHash(pp)
	pp.Signature = r.Sec.Sign(h[:])
	add("ProposeProof", "proof proposal", mustBytes(pp.ToBytes()))
	// honestly signed but semantically wrong proposals: every sender class (validator, online pool with
	// several members, plain account) x a proof that is somebody else's / all zero / all ones / empty
	for _, who := range []int{world.V1, world.P, world.X1} {
		for _, pv := range []struct {
			n string
			p []byte
		}{{"foreign", proof}, {"zeros", make([]byte, len(proof))}, {"ones", bytes.Repeat([]byte{0xff}, len(proof))}, {"empty", nil}} {
			// the node remembers the output part of every proof it has seen: keep the variants distinct
			pb := append([]byte{}, pv.p...)
			if len(pb) > 0 {
				pb[len(pb)-1] ^= byte(who)
			}
			q := &types.ProofProposal{Proof: pb, Round: prop.Height()}
			qh := crypto.SignatureHash(q)
			q.Signature, _ = crypto.Sign(qh[:], replica.Key(who))
			add("ProposeProof", "proof proposal signed by "+world.ActorNames[who]+" with "+pv.n+" proof", mustBytes(q.ToBytes()))
		}
	}
	// votes
	for step := uint8(1); step <= 2; step++ {
		v := &types.Vote{Header: &types.VoteHeader{Round: prop.Height(), Step: step, ParentHash: r.Chain.Head.Hash(), VotedHash: prop.Hash(), TurnOffline: step == 2, Upgrade: uint32(step - 1)}}
		vh := crypto.SignatureHash(v)
		v.Signature = r.Sec.Sign(vh[:])
		add("Vote", "vote", mustBytes(v.ToBytes()))
	}
	// block range: the canonical chain's headers with certificates
	var hs []*types.Header
	var cs []*types.BlockCert
	for i := uint64(1); i <= r.Chain.Head.Height() && i <= 6; i++ {
		hd := r.Chain.GetBlockHeaderByHeight(i)
		if hd == nil {
			continue
		}
		hs = append(hs, hd)
		c := r.Chain.GetCertificate(hd.Hash())
		if c == nil {
			c = &types.BlockCert{}
		}
		cs = append(cs, c)
	}
	// plus the next honest block with a self-signed certificate (what a sync peer serves)
	vote := &types.Vote{Header: &types.VoteHeader{Round: prop.Height(), Step: 255, ParentHash: r.Chain.Head.Hash(), VotedHash: prop.Hash()}}
	vh := crypto.SignatureHash(vote)
	vote.Signature = r.Sec.Sign(vh[:])
	full := types.FullBlockCert{Votes: []*types.Vote{vote}}
	add("BlocksRange", "next block with certificate", protocol.VerifRangeBytes(7, []*types.Header{prop.Header}, []*types.BlockCert{full.Compress()}))
	add("BlocksRange", "next empty block without certificate", protocol.VerifRangeBytes(7, []*types.Header{empty.Header}, nil))
	if len(hs) > 0 {
		add("BlocksRange", "canonical headers", protocol.VerifRangeBytes(7, hs, cs))
	}
	// flips and keys
	if t := world.Dyn("submitFlip V1 0"); t != nil {
		if tx := t.Build(world.NewB(r)); tx != nil {
			f := &types.Flip{Tx: tx, PublicPart: []byte("public part of the flip"), PrivatePart: []byte("private part")}
			add("FlipBody", "flip", mustBytes(f.ToBytes()))
		}
	}
	fk, _ := types.SignFlipKey(&types.PublicFlipKey{Key: []byte{1, 2, 3, 4, 5, 6, 7, 8}, Epoch: r.App.State.Epoch()}, replica.Key(world.V1))
	add("FlipKey", "public flip key", mustBytes(fk.ToBytes()))
	pk, _ := types.SignFlipKeysPackage(&types.PrivateFlipKeysPackage{Data: make([]byte, 120), Epoch: r.App.State.Epoch()}, replica.Key(world.V1))
	add("FlipKeysPackage", "private keys package", mustBytes(pk.ToBytes()))
	add("BatchFlipKey", "batch of flip keys", protocol.VerifBatchBytes(mustBytes(fk.ToBytes()), mustBytes(fk.ToBytes())))
	// snapshot manifest
	mf := &snapshot.Manifest{Root: r.Chain.Head.Root(), Height: r.Chain.Head.Height(), Cid: []byte("cidv1"), CidV2: []byte("cidv2")}
	add("SnapshotManifest", "manifest", mustBytes(mf.ToBytes()))
	// push / pull hashes of every push type, batches
	var pushes [][]byte
	for t := uint32(0); t <= 6; t++ {
		p := protocol.VerifPushBytes(t, common.Hash128{byte(t), 1, 2, 3})
		pushes = append(pushes, p)
		add("Push", "push hash", p)
		add("Pull", "pull hash", p)
	}
	if len(someTxs) > 0 {
		add("Pull", "pull of a pooled tx", protocol.VerifPushBytes(4, someTxs[0].Hash128()))
	}
	add("BatchPush", "batch of pushes", protocol.VerifBatchBytes(pushes...))
	// queries
	add("GetBlockByHash", "by hash", mustBytes(proto.Marshal(&models.ProtoGetBlockByHashRequest{Hash: r.Chain.Head.Hash().Bytes()})))
	add("GetBlocksRange", "range", mustBytes(proto.Marshal(&models.ProtoGetBlocksRangeRequest{BatchId: 1, From: 1, To: 3})))
	add("GetBlocksRange", "huge range", mustBytes(proto.Marshal(&models.ProtoGetBlocksRangeRequest{BatchId: 1, From: 1, To: 1 << 40})))
	add("GetForkBlockRange", "fork range", mustBytes(proto.Marshal(&models.ProtoGetForkBlockRangeRequest{BatchId: 2, Blocks: [][]byte{r.Chain.Head.Hash().Bytes(), {1, 2, 3}}})))
	add("UpdateShardId", "shard", mustBytes(proto.Marshal(&models.ProtoUpdateShardId{ShardId: 2})))
	add("Disconnect", "reason", mustBytes(proto.Marshal(&models.ProtoDisconnect{Reason: "bye"})))
	return items
}

func min(a, b int) int {
	if a < b {
		return a
	}
	return b
}
