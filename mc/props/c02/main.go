// C02 — every block built by an honest proposer is accepted by every honest validator.
//
// Explicit-state search over real block transitions. From every reachable base state
// (driving alphabet, BFS) the full mempool menu is offered: every singleton, every ordered
// pair (and in the thorough tier every ordered triple over a reduced menu). Replica A
// proposes with the real ProposeBlock; replica B (fresh on the same image, another node
// key) runs the real AddBlock on the proposal; A inserts its own block.
package main

import (
	"fmt"
	"os"
	"strings"

	"verif/mc/chainmc"
	"verif/mc/chainprop"
	"verif/mc/replica"
	"verif/mc/report"
	"verif/mc/world"
)

func newModel(thorough bool) *chainprop.Model {
	m := &chainprop.Model{Menu: world.Menu()}
	m.Std()
	m.StdDrive()
	m.Singles(false)
	m.GapSingles()  // a sender's second transaction after its first one was dropped by the builder's own filter
	m.TipsSingles() // every template once more with tips (tips are paid on top of amount and fee)
	if thorough {
		m.Pairs()
	} else {
		m.PairsUpTo(1)
	}
	if thorough {
		var core []int
		for i, t := range m.Menu {
			switch t.Name {
			case "send X1->Z bal-fee", "send X1->X2 bal-fee-1", "send X2->X1 all", "send X1->X2 tips=bal", "burn X2 bal key=k",
				"replenish X1->D2 bal", "deploy timelock X1 stake ok", "send X1 nonce+1 (gap)", "kill D1", "killDelegator P->D1",
				"delegate D1->P", "online V1", "send X1 maxfee=exact", "storeToIpfs X1 size0":
				core = append(core, i)
			}
		}
		for _, i := range core {
			for _, j := range core {
				for _, k := range core {
					if i != j && j != k && i != k {
						m.Acts = append(m.Acts, chainprop.Action{Name: "3:" + m.Menu[i].Name + " + " + m.Menu[j].Name + " + " + m.Menu[k].Name, Tmpl: []int{i, j, k}})
					}
				}
			}
		}
	}
	// --- appended last, so that the indices of the earlier actions stay what saved replays recorded ---
	// A transaction that the builder validates and then SKIPS must leave nothing behind. Validation reads are
	// not read-only (Delegatee / GetInviter / DelegationEpoch create an identity object for an address that has
	// none), so the interesting runs are: an earlier transaction of the same sender makes the later one fail
	// *after* such a read on a fresh address.
	fresh := []string{"delegate D1->NEW2", "delegate V1->NEW", "delegate X1->NEW2", "killInvitee X1->NEW2", "killDelegator X1->NEW2", "undelegate X1"}
	for _, n := range fresh {
		m.Acts = append(m.Acts, chainprop.Action{Name: "1:" + n, Tmpl: []int{m.Idx(n)}})
	}
	for _, r := range [][2]string{{"delegate D1->P", "delegate D1->NEW2"}, {"delegate V1->V2", "delegate V1->NEW"}, {"delegate X1->NEW2", "delegate X1->NEW2"}} {
		m.Acts = append(m.Acts, chainprop.Action{Name: "run:" + r[0] + " + " + r[1], Tmpl: []int{m.Idx(r[0]), m.Idx(r[1])}})
	}
	// ... and the sender's balance is drained by its first transaction: every template behind the whole-balance send
	drain := m.Idx("send X1->Z bal-fee")
	maxPath := 2
	if thorough {
		maxPath = 0
	}
	for i := range m.Menu {
		if i != drain {
			m.Acts = append(m.Acts, chainprop.Action{Name: "drain:" + m.Menu[i].Name, Tmpl: []int{drain, i}, MaxPath: maxPath})
		}
	}
	m.H.Proposed = func(t *chainprop.Trans) bool {
		c := t.C
		// replica B: fresh on the same image, different coinbase, validates + inserts
		B, err := world.OpenAs(t.Opts, t.St.Img, t.Now, world.OtherKey(t.A.Opts.KeyIdx))
		if err != nil {
			c.Violation("restart-failed", "validator start-up failed: "+err.Error(), nil)
			return false
		}
		kind := "proposed"
		if t.Act.Empty {
			kind = "empty"
		}
		c.Count("proposals_validated", 1)
		if errB := B.Add(t.Block); errB != nil {
			if t.Act.Direct || strings.HasPrefix(t.Act.Name, "run:") || strings.HasPrefix(t.Act.Name, "drain:") {
				// keyed by the input: which transaction was validated by the builder without being included
				kind = strings.ReplaceAll(t.Act.Name, " ", "_") // (keys are single tokens)
			}
			key := "validator-rejects:" + kind + ":" + chainprop.ErrClass(errB)
			if kind != "proposed" && kind != "empty" {
				key = strings.ReplaceAll(key, " ", "_") // input-keyed violations: the key is one token (known_findings.txt)
			}
			c.Violation(key, fmt.Sprintf("honest %s block at height %d rejected by a fresh validator: %v (txs=%d)", kind, t.Block.Height(), errB, len(t.Block.Body.Transactions)), chainprop.TxTypes(t.Block))
			return false
		}
		t.NextAux["_B"] = "" // marker only
		bRef = B
		return true
	}
	m.H.Inserted = func(t *chainprop.Trans) bool {
		c, A, B := t.C, t.A, bRef
		delete(t.NextAux, "_B")
		if B == nil {
			return true
		}
		bRef = nil
		if A.Chain.Head.Hash() != B.Chain.Head.Hash() || A.App.State.Root() != B.App.State.Root() || A.App.IdentityState.Root() != B.App.IdentityState.Root() {
			c.Violation("heads-differ", fmt.Sprintf("after insertion A head=%x root=%x / B head=%x root=%x", A.Chain.Head.Hash(), A.App.State.Root(), B.Chain.Head.Hash(), B.App.State.Root()), nil)
			return false
		}
		ia, ib := world.SharedImage(replica.Snapshot(A.DB)), world.SharedImage(replica.Snapshot(B.DB))
		if ia.Hash() != ib.Hash() {
			c.Violation("images-differ", fmt.Sprintf("shared database content differs after inserting the same block: %v", ia.Diff(ib)), nil)
			return false
		}
		if len(t.Block.Body.Transactions) > 0 {
			c.Sample(map[string]interface{}{"scenario": t.M.Scn[t.Scn], "trace": c.Labels(), "height": t.Block.Height(), "txs": chainprop.TxTypes(t.Block), "flags": t.Block.Header.Flags()})
		}
		return true
	}
	return m
}

var bRef *replica.Replica

func main() {
	run := report.New("C02")
	m := newModel(run.Thorough())
	if chainmc.IsWorker() {
		chainmc.WorkerMain(m)
		return
	}
	if run.Replay != "" {
		chainmc.ReplayFile(run, m)
		return
	}
	run.SetBudget(6*60e9, 20*60e9)
	depth := 3
	if d := os.Getenv("VERIF_DEPTH"); d != "" {
		fmt.Sscan(d, &depth)
	}
	if run.Thorough() {
		depth = 4
	}
	run.Set("menu_templates", len(m.Menu))
	run.Set("actions", len(m.Acts))
	chainmc.Explore(run, m, chainmc.Config{Depth: depth, Chunk: 48})
	run.Set("evaluations", run.Get("transitions"))
	run.Set("distinct_nontrivial", run.Get("states"))
	run.Assume = append(run.Assume,
		"content identifiers are computed by the repository's memoryIpfs.Cid on both replicas (kubo is not linkable here)",
		"fixed node keys; VRF proof nonces are random, block hashes are therefore excluded from state keys",
		"every state is re-opened through the normal start-up sequence (each transition is also a restart)")
	run.Finish("model_checking", "BFS over real block transitions: driving alphabet expanded to the depth bound from 3 genesis families; from every reachable base state every singleton and ordered pair (thorough: triples over the value core) of the tx menu is offered to the proposer's pool; each proposal is validated+inserted by a fresh replica with another key; non-trivial/distinct = canonical chain states (height, roots, seed, time, epoch, period)")
}
