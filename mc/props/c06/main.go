// C06 — no transaction is ever applied twice; nonces advance strictly per epoch.
//
// Histories of real block transitions (incl. epoch change with dust clearing). Along every
// history each included transaction is re-offered at every later state (a) to the pool,
// (b) to the strict block processing (a malicious proposer bypasses the pool),
// (c) to the building path; and the tx lists of all inserted blocks are checked for
// duplicates / nonce continuity / epoch equality.
package main

import (
	"encoding/hex"
	"fmt"
	"os"
	"strings"

	"github.com/idena-network/idena-go/blockchain/types"
	"github.com/idena-network/idena-go/blockchain/validation"
	"verif/mc/chainmc"
	"verif/mc/chainprop"
	"verif/mc/replica"
	"verif/mc/report"
	"verif/mc/world"
)

// Aux["hist"]: ";"-joined  epoch:hexTx  of every tx included so far on this history
func histOf(aux map[string]string) []string {
	if aux["hist"] == "" {
		return nil
	}
	return strings.Split(aux["hist"], ";")
}

func decode(entry string) (uint16, *types.Transaction) {
	var ep uint16
	i := strings.IndexByte(entry, ':')
	fmt.Sscan(entry[:i], &ep)
	b, _ := hex.DecodeString(entry[i+1:])
	tx := new(types.Transaction)
	if err := tx.FromBytes(b); err != nil {
		panic(err)
	}
	return ep, tx
}

// reoffer presents every transaction of the history again at the state replica r stands on:
// (a) to the pool, (b) to the strict block processing (a hostile proposer bypasses the pool),
// (c) to the building path.
func reoffer(c *chainmc.Ctx, r *replica.Replica, hist []string) bool {
	if len(hist) == 0 {
		return true
	}
	hdr := r.Chain.VerifProposeBlockWithTxs([]byte{}, nil).Block.Header
	for _, e := range hist {
		ep, tx := decode(e)
		c.Count("reoffers", 1)
		if err := r.Pool.AddExternalTxs(validation.InboundTx, tx); err == nil {
			c.Violation("pool-accepts-replay", fmt.Sprintf("pool accepted tx %s (type %d nonce %d epoch %d) that was already included in epoch %d", tx.Hash().Hex(), tx.Type, tx.AccountNonce, tx.Epoch, ep), nil)
			return false
		}
		if err := r.Chain.VerifProcessTxs([]*types.Transaction{tx}, hdr); err == nil {
			c.Violation("block-processing-accepts-replay", fmt.Sprintf("processTxs accepted tx %s (type %d nonce %d epoch %d) already included in epoch %d", tx.Hash().Hex(), tx.Type, tx.AccountNonce, tx.Epoch, ep), nil)
			return false
		}
		blk := r.Chain.VerifProposeBlockWithTxs([]byte{}, []*types.Transaction{tx}).Block
		if len(blk.Body.Transactions) != 0 {
			c.Violation("builder-includes-replay", fmt.Sprintf("ProposeBlock included tx %s already included in epoch %d", tx.Hash().Hex(), ep), nil)
			return false
		}
		c.Outcome(fmt.Sprintf("replay type=%d same-epoch=%v rejected", tx.Type, ep == r.App.State.Epoch()))
	}
	return true
}

func newModel(thorough bool) *chainprop.Model {
	m := &chainprop.Model{Menu: world.Menu()}
	m.Std()
	m.Scn, m.Opts, m.Prefix = m.Scn[1:], m.Opts[1:], m.Prefix[1:]
	m.Acts = append(m.Acts,
		m.Drive("send X1->X2 1"),
		m.Drive("send X1->X2 1", "send X2 second"),
		m.Drive("send X2->X1 all"),
		m.Drive("send X1->Z bal-fee"),
		m.Drive("send X1 nonce+1 (gap)"),
		m.Drive("send X1 epoch+1"),
		m.Drive("online V1", "kill V2", "burn X1 5 key=k"),
		m.Drive("delegate D1->P", "replenish X1->V1 10"),
		chainprop.Action{Name: "empty-block", Empty: true, Expand: true},
		chainprop.Action{Name: "run-ceremony-to-epoch-end", Macro: "epoch", Expand: true},
	)
	m.H.Always = true
	m.H.Proposed = func(t *chainprop.Trans) bool {
		c := t.C
		// a malicious proposer bypasses the pool: fresh transactions that the rules forbid must be
		// refused by the strict block processing itself (foreign epoch, nonce gap, nonce reuse)
		{
			hb := world.NewB(t.A)
			type hostile struct {
				name string
				tx   *types.Transaction
			}
			var hs []hostile
			for _, from := range []int{world.X1, world.X2, world.V1} {
				n := world.ActorNames[from]
				hs = append(hs,
					hostile{"future-epoch nonce1 " + n, world.NewB(t.A).Tx(world.Spec{From: from, To: world.PA(world.Z), Type: types.SendTx, Amount: replica.Dna(1), EpochD: 1, Nonce: 1})},
					hostile{"future-epoch next-nonce " + n, world.NewB(t.A).Tx(world.Spec{From: from, To: world.PA(world.Z), Type: types.SendTx, Amount: replica.Dna(1), EpochD: 1})},
					hostile{"nonce-gap " + n, world.NewB(t.A).Tx(world.Spec{From: from, To: world.PA(world.Z), Type: types.SendTx, Amount: replica.Dna(1), NonceD: 1})},
					// one below the next nonce: the last used one, or 0 for an account whose sequence (re)starts at 1
					hostile{"nonce-below-next " + n, world.NewB(t.A).Tx(world.Spec{From: from, To: world.PA(world.Z), Type: types.SendTx, Amount: replica.Dna(1), NonceD: -1})},
				)
				if t.A.App.State.Epoch() > 0 {
					hs = append(hs, hostile{"past-epoch " + n, world.NewB(t.A).Tx(world.Spec{From: from, To: world.PA(world.Z), Type: types.SendTx, Amount: replica.Dna(1), EpochD: -1, Nonce: 1})})
				}
				if t.A.App.State.GetNonce(world.A(from)) > 0 && t.A.App.State.GetEpoch(world.A(from)) == t.A.App.State.Epoch() {
					hs = append(hs, hostile{"nonce-reuse " + n, world.NewB(t.A).Tx(world.Spec{From: from, To: world.PA(world.Z), Type: types.SendTx, Amount: replica.Dna(1), Nonce: t.A.App.State.GetNonce(world.A(from))})})
				}
			}
			_ = hb
			for _, h := range hs {
				c.Count("hostile_fresh_txs", 1)
				if err := t.A.Chain.VerifProcessTxs([]*types.Transaction{h.tx}, t.Block.Header); err == nil {
					c.Violation("block-processing-accepts:"+strings.Fields(h.name)[0], fmt.Sprintf("strict block processing accepts a forbidden fresh transaction (%s: tx epoch %d nonce %d, state epoch %d)", h.name, h.tx.Epoch, h.tx.AccountNonce, t.A.App.State.Epoch()), nil)
					return false
				}
			}
		}
		return true
	}
	m.H.Inserted = func(t *chainprop.Trans) bool {
		c := t.C
		hist := histOf(t.St.Aux)
		seen := map[string]bool{}
		last := map[string]uint32{} // sender|epoch -> last nonce
		for _, e := range hist {
			ep, tx := decode(e)
			seen[tx.Hash().Hex()] = true
			s, _ := types.Sender(tx)
			k := fmt.Sprintf("%s|%d", s.Hex(), ep)
			if tx.AccountNonce > last[k] {
				last[k] = tx.AccountNonce
			}
		}
		// epoch of inclusion = epoch of the state the block was built on
		pre := t.PreReplica()
		ep := pre.App.State.Epoch()
		for _, tx := range t.Block.Body.Transactions {
			h := tx.Hash().Hex()
			s, _ := types.Sender(tx)
			k := fmt.Sprintf("%s|%d", s.Hex(), ep)
			if c.Check {
				c.Count("included_checked", 1)
				if seen[h] {
					c.Violation("tx-twice", fmt.Sprintf("tx %s appears twice on the chain", h), nil)
					return false
				}
				if tx.Epoch != ep {
					c.Violation("foreign-epoch-applied", fmt.Sprintf("tx signed for epoch %d applied in epoch %d", tx.Epoch, ep), nil)
					return false
				}
				if tx.AccountNonce != last[k]+1 {
					c.Violation("nonce-not-consecutive", fmt.Sprintf("sender %s epoch %d: nonce %d follows %d", s.Hex(), ep, tx.AccountNonce, last[k]), nil)
					return false
				}
			}
			seen[h] = true
			last[k] = tx.AccountNonce
			b, _ := tx.ToBytes()
			hist = append(hist, fmt.Sprintf("%d:%s", ep, hex.EncodeToString(b)))
		}
		t.NextAux["hist"] = strings.Join(hist, ";")
		// history is part of the state identity (replay attempts depend on it)
		hs := make([]string, 0, len(hist))
		for _, e := range hist {
			hs = append(hs, e[:strings.IndexByte(e, ':')+17])
		}
		t.NextAux["keyx"] = " hist=" + strings.Join(hs, ",")
		if os.Getenv("VERIF_C06_DEBUG") != "" {
			st := t.A.App.State
			fmt.Fprintf(os.Stderr, "DEBUG h=%d flags=%b txs=%d X1 bal=%v nonce=%d epoch=%d | X2 bal=%v | lastSnapshot=%d period=%d netsize=%d\n", t.Block.Height(), t.Block.Header.Flags(), len(t.Block.Body.Transactions),
				st.GetBalance(world.A(world.X1)), st.GetNonce(world.A(world.X1)), st.GetEpoch(world.A(world.X1)), st.GetBalance(world.A(world.X2)), st.LastSnapshot(), st.ValidationPeriod(), t.A.App.ValidatorsCache.NetworkSize())
		}
		if os.Getenv("VERIF_C06_DEBUG") != "" {
			for i, tx := range t.Txs {
				if tx == nil {
					fmt.Fprintf(os.Stderr, "DEBUG   tmpl %d n/a\n", i)
				} else {
					fmt.Fprintf(os.Stderr, "DEBUG   tx amount=%v maxfee=%v nonce=%d admit=%v\n", tx.Amount, tx.MaxFee, tx.AccountNonce, t.Admit[i])
				}
			}
		}
		// re-offer the whole history (this block's txs included) at the state after this block
		if c.Check && !reoffer(c, t.A, hist) {
			return false
		}
		if c.Check && len(hist) > 2 {
			c.Sample(map[string]interface{}{"scenario": t.M.Scn[t.Scn], "trace": c.Labels(), "history_len": len(hist), "epoch": ep})
		}
		return true
	}
	return m
}

func main() {
	run := report.New("C06")
	m := newModel(run.Thorough())
	if chainmc.IsWorker() {
		chainmc.WorkerMain(m)
		return
	}
	if run.Replay != "" {
		chainmc.ReplayFile(run, m)
		return
	}
	run.SetBudget(10*60e9, 20*60e9)
	depth := 5
	if run.Thorough() {
		depth = 6
	}
	chainmc.Explore(run, m, chainmc.Config{Depth: depth, Chunk: 4})
	run.Set("evaluations", run.Get("reoffers")+run.Get("included_checked"))
	run.Set("distinct_nontrivial", run.Get("states"))
	run.Assume = append(run.Assume, "reorg histories are covered by C08's driver, not here")
	run.Finish("model_checking", "BFS over histories of real block transitions (10 expandable actions incl. the epoch macro with dust clearing, 3 scenarios); the history of included txs is part of the state; at every transition every earlier tx of the history is re-offered to TxPool.AddExternalTxs, to the strict processTxs on a fresh check state and to the building path; inserted tx lists are checked for duplicates, per-(sender,epoch) nonce continuity from 1 and epoch equality")
}
