package main

import (
	"fmt"
	"os"
	"strings"

	"github.com/idena-network/idena-go/core/state"
	"verif/mc/chainmc"
	"verif/mc/chainprop"
	"verif/mc/world"
)

// usage: dbg3 <scn> step...   step = "J" (jump) | "J|a|b" | "a|b" | "" | "EPOCH"
func main() {
	m := &chainprop.Model{Menu: world.Menu()}
	m.Std()
	cn, co, cp := chainprop.CeremonyScenario()
	m.Scn, m.Opts, m.Prefix = append(m.Scn, cn), append(m.Opts, co), append(m.Prefix, cp)
	var scn int
	fmt.Sscan(os.Args[1], &scn)
	m.H.Inserted = func(t *chainprop.Trans) bool {
		var adm []string
		for i, e := range t.Admit {
			if e != nil {
				adm = append(adm, fmt.Sprintf("%d:%v", i, e))
			}
		}
		fmt.Printf("  block %d flags=%d txs=%d period=%d rejected=%v proposer=%s nonceP=%d\n", t.Block.Height(), t.Block.Header.Flags(), len(t.Block.Body.Transactions), t.A.App.State.ValidationPeriod(), adm, world.ActorNames[t.A.Opts.KeyIdx], t.A.App.State.GetIdentity(world.A(world.P)).DelegationNonce)
		return true
	}
	st := m.Init(scn)
	for _, arg := range os.Args[2:] {
		var a chainprop.Action
		if strings.HasPrefix(arg, "BY:") {
			a = chainprop.Action{Name: arg, By: arg[3:]}
		} else if arg == "EPOCH" {
			a = chainprop.Action{Name: "epoch", Macro: "epoch"}
		} else {
			parts := strings.Split(arg, "|")
			jump := 0
			if parts[0] == "J" {
				jump = 1
				parts = parts[1:]
			}
			var names []string
			for _, p := range parts {
				if p != "" {
					names = append(names, p)
				}
			}
			a = m.Drive(names...)
			a.Jump = jump
		}
		m.Acts = append(m.Acts, a)
		fmt.Println("step:", arg)
		nx := m.Step(scn, st, len(m.Acts)-1, &chainmc.Ctx{Check: true})
		if nx == nil {
			fmt.Println("  DISABLED")
			continue
		}
		st = nx
	}
	r, _ := world.Open(m.Opts[scn], st.Img, st.Now)
	for i := 0; i <= world.NEW2; i++ {
		id := r.App.State.GetIdentity(world.A(i))
		if id.State != state.Undefined {
			fmt.Printf("%s: state=%d birthday=%d qual=%d shortPts=%d stake=%v\n", world.ActorNames[i], id.State, id.Birthday, id.QualifiedFlips, id.ShortFlipPoints, id.Stake)
		}
	}
	fmt.Println("epoch", r.App.State.Epoch(), "network", r.App.ValidatorsCache.NetworkSize())
	vc := r.App.ValidatorsCache
	fmt.Println("P pool:", vc.IsPool(world.A(world.P)), "size", vc.PoolSize(world.A(world.P)))
	for i := 0; i <= world.NEW2; i++ {
		if d := vc.Delegator(world.A(i)); !d.IsEmpty() {
			fmt.Println("  delegator", world.ActorNames[i], world.A(i).Hex()[:8])
		}
	}
}
