package main

import (
	"archive/tar"
	"bytes"
	"fmt"
	"io"
	"time"

	"github.com/idena-network/idena-go/common"
	"github.com/golang/protobuf/proto"
	"github.com/idena-network/idena-go/core/state"
	models "github.com/idena-network/idena-go/protobuf"
	dbm "github.com/tendermint/tm-db"
	"verif/mc/chainmc"
	"verif/mc/replica"
	"verif/mc/report"
)

type kv struct{ k, v string }

func treeContent(db dbm.DB, height uint64) ([]kv, common.Hash, error) {
	t := state.NewMutableTree(db)
	if _, err := t.LoadVersion(int64(height)); err != nil {
		return nil, common.Hash{}, err
	}
	var out []kv
	t.GetImmutable().Iterate(func(key []byte, value []byte) bool {
		out = append(out, kv{string(key), string(value)})
		return false
	})
	return out, t.WorkingHash(), nil
}

func dbEmpty(db dbm.DB) bool {
	it, err := db.Iterator(nil, nil)
	if err != nil {
		return false
	}
	defer it.Close()
	return !it.Valid()
}

// importArchive runs the real ReadTreeFrom2 on a fresh prefix db; panics become errors
// tagged PANIC, a watchdog turns a hang into HANG.
func importArchive(archive []byte, height uint64, root common.Hash) (target *dbm.PrefixDB, err error) {
	mem := dbm.NewMemDB()
	pdb := dbm.NewPrefixDB(mem, []byte("snap-"))
	done := make(chan error, 1)
	go func() {
		defer func() {
			if p := recover(); p != nil {
				done <- fmt.Errorf("PANIC: %v", p)
			}
		}()
		done <- state.ReadTreeFrom2(pdb, height, root, bytes.NewReader(archive))
	}()
	select {
	case err = <-done:
	case <-time.After(60 * time.Second):
		err = fmt.Errorf("HANG: import did not return within 60s")
	}
	return pdb, err
}

func equalKV(a, b []kv) bool {
	if len(a) != len(b) {
		return false
	}
	for i := range a {
		if a[i] != b[i] {
			return false
		}
	}
	return true
}

// (b) for a chain state: export the state tree at the head, import elsewhere, compare.
func snapshotRoundTrip(c *chainmc.Ctx, r *replica.Replica) bool {
	h := r.Chain.Head.Height()
	var buf bytes.Buffer
	root, err := r.App.State.WriteSnapshot2(h, &buf)
	if err != nil {
		c.Violation("snapshot-export-failed", err.Error(), nil)
		return false
	}
	c.Count("snapshot_roundtrips", 1)
	if root != r.Chain.Head.Root() {
		c.Violation("snapshot-export-root", fmt.Sprintf("exported root %x differs from the head's state root %x", root.Bytes()[:6], r.Chain.Head.Root().Bytes()[:6]), nil)
		return false
	}
	pdb, err := importArchive(buf.Bytes(), h, root)
	if err != nil {
		c.Violation("snapshot-import-failed", "importing an untouched export fails: "+err.Error(), nil)
		return false
	}
	got, groot, err := treeContent(pdb, h)
	if err != nil || groot != root {
		c.Violation("snapshot-import-root", fmt.Sprintf("imported tree root %x != advertised %x (%v)", groot.Bytes()[:6], root.Bytes()[:6], err), nil)
		return false
	}
	// contents: compare with the node's own committed tree through its public iterators
	n := 0
	want := map[string]string{}
	r.App.State.IterateAccounts(func(k, v []byte) bool { want[string(k)] = string(v); return false })
	r.App.State.IterateIdentities(func(k, v []byte) bool { want[string(k)] = string(v); return false })
	gm := map[string]string{}
	for _, e := range got {
		gm[e.k] = e.v
	}
	for k, v := range want {
		n++
		if gv, ok := gm[k]; !ok || gv != v {
			c.Violation("snapshot-content-differs", fmt.Sprintf("key %x differs after import", k), nil)
			return false
		}
	}
	// and a second export of the imported tree must be byte-identical
	var buf2 bytes.Buffer
	if root2, err := state.WriteTreeTo2(pdb, h, &buf2); err != nil || root2 != root || !bytes.Equal(tarPayload(buf.Bytes()), tarPayload(buf2.Bytes())) {
		c.Violation("snapshot-reexport-differs", fmt.Sprintf("re-export of the imported tree differs (err=%v)", err), nil)
		return false
	}
	return true
}

// tarPayload concatenates member names and contents (headers carry timestamps).
func tarPayload(a []byte) []byte {
	tr := tar.NewReader(bytes.NewReader(a))
	var out bytes.Buffer
	for {
		h, err := tr.Next()
		if err != nil {
			break
		}
		out.WriteString(h.Name + "\x00")
		io.Copy(&out, tr)
	}
	return out.Bytes()
}

func buildTree(keys []kv, height uint64) (dbm.DB, common.Hash) {
	db := dbm.NewMemDB()
	t := state.NewMutableTree(db)
	for _, e := range keys {
		t.Set([]byte(e.k), []byte(e.v))
	}
	t.SetVirtualVersion(int64(height) - 1)
	if _, _, err := t.SaveVersionAt(int64(height)); err != nil {
		panic(err)
	}
	return db, t.WorkingHash()
}

// (b)+(c) on synthetic trees
func snapshotPart(run *report.Run) {
	const h = 7
	synth := map[string][]kv{
		"one":          {{"a", "1"}},
		"two":          {{"a", "1"}, {"b", ""}},
		"empty-values": {{"a", ""}, {"b", ""}, {"c", ""}},
		"five":         {{"\x01aaaa", "v1"}, {"\x01aaab", ""}, {"\x02bbbb", "vvvvvvvvvvvvvvvvvvvvvvvvvvvvvvvvvvvvvv"}, {"\x05c", "x"}, {"\x09", "y"}},
	}
	big := func(n int) []kv {
		var out []kv
		for i := 0; i < n; i++ {
			v := fmt.Sprintf("value-%d", i)
			if i%97 == 0 {
				v = ""
			}
			out = append(out, kv{fmt.Sprintf("\x05key-%08d", i), v})
		}
		return out
	}
	half := state.SnapshotBlockSize / 2
	synth["block-1"] = big(half - 1)   // 2n-1 nodes = SnapshotBlockSize-3
	synth["block"] = big(half)         // SnapshotBlockSize-1 nodes
	synth["block+1"] = big(half + 1)   // SnapshotBlockSize+1 nodes -> 2 members
	synth["three-members"] = big(state.SnapshotBlockSize + 10)
	type arch struct {
		name    string
		data    []byte
		root    common.Hash
		content []kv
	}
	var small []arch
	var multi []arch
	for name, keys := range synth {
		db, root := buildTree(keys, h)
		var buf bytes.Buffer
		r2, err := state.WriteTreeTo2(db, h, &buf)
		if err != nil || r2 != root {
			run.Violation("synthetic-export:"+name, fmt.Sprintf("export of synthetic tree %s: err=%v root match=%v", name, err, r2 == root), nil)
			return
		}
		pdb, err := importArchive(buf.Bytes(), h, root)
		run.Add("snapshot_roundtrips", 1)
		if err != nil {
			run.Violation("synthetic-import:"+name, "import of an untouched export of tree "+name+" fails: "+err.Error(), nil)
			return
		}
		got, groot, _ := treeContent(pdb, h)
		want, _, _ := treeContent(db, h)
		if groot != root || !equalKV(got, want) {
			run.Violation("synthetic-roundtrip:"+name, fmt.Sprintf("tree %s: imported root/content differ (root ok=%v, %d vs %d entries)", name, groot == root, len(got), len(want)), nil)
			return
		}
		a := arch{name, buf.Bytes(), root, want}
		if len(keys) <= 5 {
			small = append(small, a)
		} else {
			multi = append(multi, a)
		}
	}
	// (c) corruption: import ok => exactly the advertised tree; error => empty target; never panic/hang
	check := func(a arch, corrupted []byte, what string) bool {
		if bytes.Equal(corrupted, a.data) {
			return true
		}
		pdb, err := importArchive(corrupted, h, a.root)
		run.Add("corrupted_imports", 1)
		if err != nil {
			if len(err.Error()) >= 5 && (err.Error()[:5] == "PANIC" || err.Error()[:4] == "HANG") {
				msg := err.Error()
				if len(msg) > 60 {
					msg = msg[:60]
				}
				run.Violation("snapshot-import-"+msg, fmt.Sprintf("tree %s, %s: %v", a.name, what, err), map[string]interface{}{"tree": a.name, "edit": what})
				run.Outcome("panic-or-hang")
				return true
			}
			run.Outcome("refused")
			if !dbEmpty(pdb) {
				run.Violation("refused-import-leaves-data", fmt.Sprintf("tree %s, %s: import refused (%v) but the target db is not empty", a.name, what, err), map[string]interface{}{"tree": a.name, "edit": what})
				return true
			}
			return true
		}
		got, groot, lerr := treeContent(pdb, h)
		if lerr != nil || groot != a.root || !equalKV(got, a.content) {
			run.Violation("corrupted-import-accepted", fmt.Sprintf("tree %s, %s: import succeeded but root/content are not the advertised ones (root ok=%v, entries %d vs %d)", a.name, what, groot == a.root, len(got), len(a.content)), map[string]interface{}{"tree": a.name, "edit": what})
			return true
		}
		run.Outcome("accepted-identical")
		return true
	}
	subs := []byte{0x00, 0xff}
	if run.Thorough() {
		subs = nil
		for i := 0; i < 256; i++ {
			subs = append(subs, byte(i))
		}
	}
	for _, a := range small {
		run.Sample(map[string]interface{}{"tree": a.name, "archive_bytes": len(a.data), "entries": len(a.content)})
		for pos := 0; pos < len(a.data); pos++ {
			if run.Expired("snapshot corruption") {
				return
			}
			for bit := 0; bit < 8; bit++ {
				c := append([]byte{}, a.data...)
				c[pos] ^= 1 << bit
				if !check(a, c, fmt.Sprintf("bit flip at byte %d bit %d", pos, bit)) {
					return
				}
			}
			for _, sb := range subs {
				c := append([]byte{}, a.data...)
				c[pos] = sb
				if !check(a, c, fmt.Sprintf("byte %d set to %#x", pos, sb)) {
					return
				}
			}
		}
		for l := 0; l < len(a.data); l++ {
			if !check(a, a.data[:l], fmt.Sprintf("truncated to %d bytes", l)) {
				return
			}
		}
	}
	// member-level edits on multi-member archives
	for _, a := range multi {
		members := splitTar(a.data)
		run.Sample(map[string]interface{}{"tree": a.name, "archive_bytes": len(a.data), "members": len(members)})
		if len(members) < 2 {
			continue
		}
		for i := range members {
			var drop, dup [][]byte
			for j, m := range members {
				if j != i {
					drop = append(drop, m)
				}
				dup = append(dup, m)
				if j == i {
					dup = append(dup, m)
				}
			}
			if !check(a, joinTar(drop), fmt.Sprintf("member %d dropped", i)) || !check(a, joinTar(dup), fmt.Sprintf("member %d duplicated", i)) {
				return
			}
			if i+1 < len(members) {
				sw := append([][]byte{}, members...)
				sw[i], sw[i+1] = sw[i+1], sw[i]
				if !check(a, joinTar(sw), fmt.Sprintf("members %d,%d swapped", i, i+1)) {
					return
				}
			}
		}
		for _, frac := range []int{1, 2, 3} {
			if !check(a, a.data[:len(a.data)*frac/4], fmt.Sprintf("truncated to %d/4", frac)) {
				return
			}
		}
		// node-level edits inside every member (the importer flushes to the target every 10000
		// nodes, so an edit in a later member is met after data has been written)
		names, contents := readMembers(a.data)
		for mi := range contents {
			nodes := new(models.ProtoSnapshotNodes)
			if err := proto.Unmarshal(contents[mi], nodes); err != nil || len(nodes.Nodes) == 0 {
				continue
			}
			for _, pos := range []int{0, len(nodes.Nodes) / 2, len(nodes.Nodes) - 1} {
				for _, ed := range nodeEdits(h) {
					cp := new(models.ProtoSnapshotNodes)
					if err := proto.Unmarshal(contents[mi], cp); err != nil {
						continue
					}
					ed.f(cp.Nodes[pos])
					enc, _ := proto.Marshal(cp)
					cs := append([][]byte{}, contents...)
					cs[mi] = enc
					if !check(a, writeMembers(names, cs), fmt.Sprintf("member %d node %d: %s", mi, pos, ed.name)) {
						return
					}
					run.Add("node_level_edits", 1)
				}
			}
		}
	}
}

type nodeEdit struct {
	name string
	f    func(n *models.ProtoSnapshotNodes_Node)
}

func nodeEdits(h uint64) []nodeEdit {
	return []nodeEdit{
		{"version=height+1", func(n *models.ProtoSnapshotNodes_Node) { n.Version = h + 1 }},
		{"version=0", func(n *models.ProtoSnapshotNodes_Node) { n.Version = 0 }},
		{"version=2^63", func(n *models.ProtoSnapshotNodes_Node) { n.Version = 1 << 63 }},
		{"key=nil", func(n *models.ProtoSnapshotNodes_Node) { n.Key = nil }},
		{"value=nil", func(n *models.ProtoSnapshotNodes_Node) { n.Value, n.EmptyValue = nil, false }},
		{"value=x", func(n *models.ProtoSnapshotNodes_Node) { n.Value, n.EmptyValue = []byte("x"), false }},
		{"height+1", func(n *models.ProtoSnapshotNodes_Node) { n.Height++ }},
		{"height=100", func(n *models.ProtoSnapshotNodes_Node) { n.Height = 100 }},
		{"key+1", func(n *models.ProtoSnapshotNodes_Node) { n.Key = append(append([]byte{}, n.Key...), 1) }},
	}
}

func readMembers(a []byte) (names []string, contents [][]byte) {
	tr := tar.NewReader(bytes.NewReader(a))
	for {
		hd, err := tr.Next()
		if err != nil {
			break
		}
		var b bytes.Buffer
		io.Copy(&b, tr)
		names = append(names, hd.Name)
		contents = append(contents, b.Bytes())
	}
	return
}

func writeMembers(names []string, contents [][]byte) []byte {
	var out bytes.Buffer
	tw := tar.NewWriter(&out)
	for i, n := range names {
		tw.WriteHeader(&tar.Header{Name: n, Mode: 0o644, Size: int64(len(contents[i])), Typeflag: tar.TypeReg})
		tw.Write(contents[i])
	}
	tw.Close()
	return out.Bytes()
}

// splitTar returns the raw header+content blocks of each member (without the end marker).
func splitTar(a []byte) [][]byte {
	var out [][]byte
	off := 0
	for off+512 <= len(a) {
		hdr := a[off : off+512]
		if bytes.Equal(hdr, make([]byte, 512)) {
			break
		}
		var size int64
		fmt.Sscanf(string(bytes.TrimRight(hdr[124:136], "\x00 ")), "%o", &size)
		n := 512 + int((size+511)/512*512)
		if off+n > len(a) {
			break
		}
		out = append(out, a[off:off+n])
		off += n
	}
	return out
}

func joinTar(m [][]byte) []byte {
	var out []byte
	for _, x := range m {
		out = append(out, x...)
	}
	return append(out, make([]byte, 1024)...)
}
