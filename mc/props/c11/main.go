// C11 — sync artifacts (identity diffs, snapshots) reproduce the canonical state.
//
// (a) explicit-state search over histories incl. reorganisations: after every transition a
//     follower that holds only the genesis identity state replays, for every canonical
//     height, the diff the node *serves* (GetIdentityDiff) exactly like protocol/fast.go.
// (b) snapshot export/import round trip for every distinct state of the search and for
//     synthetic trees; (c) exhaustive single-fault corruption of small archives.
package main

import (
	"encoding/hex"
	"fmt"
	"strings"

	"github.com/idena-network/idena-go/blockchain/types"
	"github.com/idena-network/idena-go/common"
	"github.com/idena-network/idena-go/core/validators"
	"verif/mc/chainmc"
	"verif/mc/fsync"
	"verif/mc/chainprop"
	"verif/mc/monitors"
	"verif/mc/replica"
	"verif/mc/report"
	"verif/mc/world"
)

// Aux["ops"]: ";"-joined  B:<hex block>  |  R:<height>
func opsOf(aux map[string]string) []string {
	if aux["ops"] == "" {
		return nil
	}
	return strings.Split(aux["ops"], ";")
}

func addOp(aux map[string]string, prev string, op string) {
	if prev == "" {
		aux["ops"] = op
	} else {
		aux["ops"] = prev + ";" + op
	}
}

// longLived replays the operation history on one never-restarted replica.
func longLived(o replica.Opts, ops []string) (*replica.Replica, error) {
	o.Ipfs = world.Net
	o.KeyIdx = world.X2
	replica.SetTime(world.T0)
	L, err := replica.New(o, replica.Image(nil).NewDB())
	if err != nil {
		return nil, err
	}
	for _, op := range ops {
		if op[0] == 'R' {
			var h uint64
			fmt.Sscan(op[2:], &h)
			if _, err := L.Chain.ResetTo(h); err != nil {
				return nil, err
			}
			continue
		}
		b, _ := hex.DecodeString(op[2:])
		blk := new(types.Block)
		if err := blk.FromBytes(b); err != nil {
			return nil, err
		}
		if err := L.Add(blk); err != nil {
			return nil, fmt.Errorf("block %d: %w", blk.Height(), err)
		}
	}
	return L, nil
}

func followDiffs(c *chainmc.Ctx, o replica.Opts, node *replica.Replica, who string) bool {
	o.Ipfs = world.Net
	o.KeyIdx = world.Z
	replica.SetTime(world.T0)
	F, err := replica.New(o, replica.Image(nil).NewDB())
	if err != nil {
		panic(err)
	}
	ids := F.App.IdentityState
	vc := validators.NewValidatorsCache(ids, F.App.State.GodAddress())
	vc.Load()
	head := node.Chain.Head.Height()
	for h := uint64(2); h <= head; h++ {
		hdr := node.Chain.GetBlockHeaderByHeight(h)
		if hdr == nil {
			c.Violation("canonical-header-missing", fmt.Sprintf("%s: no canonical header at height %d below head %d", who, h, head), nil)
			return false
		}
		diff := node.Chain.GetIdentityDiff(h)
		c.Count("diffs_replayed", 1)
		if diff != nil && !diff.Empty() {
			ids.AddDiff(h, diff)
		}
		if ids.Root() != hdr.IdentityRoot() {
			c.Violation("served-diff-root-mismatch:"+who, fmt.Sprintf("%s: replaying the served identity diffs up to height %d gives identity root %x, the canonical header commits to %x", who, h, ids.Root().Bytes()[:6], hdr.IdentityRoot().Bytes()[:6]), nil)
			return false
		}
		if diff != nil && !diff.Empty() {
			if _, _, err := ids.CommitTree(int64(h)); err != nil {
				c.Violation("follower-commit-failed", err.Error(), nil)
				return false
			}
			vc.UpdateFromIdentityStateDiff(diff)
		}
	}
	var addrs []common.Address
	for i := 0; i <= world.NEW2; i++ {
		addrs = append(addrs, world.A(i))
	}
	ref := validators.NewValidatorsCache(node.App.IdentityState, node.App.State.GodAddress())
	ref.Load()
	if d := monitors.DiffObs(monitors.ObserveCache(vc, addrs), monitors.ObserveCache(ref, addrs)); len(d) > 0 {
		c.Violation("follower-validator-view-differs", fmt.Sprintf("%s: validator view built from the served diffs differs from the node's: %v", who, d), nil)
		return false
	}
	return true
}

func newModel(thorough bool) *chainprop.Model {
	m := &chainprop.Model{Menu: world.Menu()}
	m.Std()
	m.Scn, m.Opts, m.Prefix = m.Scn[1:], m.Opts[1:], m.Prefix[1:]
	add := func(names ...string) { m.Acts = append(m.Acts, m.Drive(names...)) }
	add()
	add("online V1", "online P")
	add("offline V1")
	add("delegate D1->P", "delegate D2->P")
	add("kill V2")
	add("kill D1", "send X1->X2 1")
	add("killDelegator P->D1")
	add("invite G->NEW", "delegate C1->V1")
	add("replenish X1->D2 bal")
	m.Acts = append(m.Acts,
		chainprop.Action{Name: "empty-block", Empty: true, Expand: true},
		chainprop.Action{Name: "run-ceremony-to-epoch-end", Macro: "epoch", Expand: true},
	)
	// reorganisations: drop the last n blocks and continue on another branch
	for _, n := range []int{1, 2} {
		for _, alt := range []string{"E", "P", "EE", "PE"} {
			n, alt := n, alt
			m.Acts = append(m.Acts, chainprop.Action{Name: fmt.Sprintf("reorg drop=%d continue=%s", n, alt), Expand: true, Custom: func(t *chainprop.Trans) bool {
				head := t.A.Chain.Head.Height()
				if head < uint64(n)+2 || len(opsOf(t.St.Aux)) < n {
					return false
				}
				target := head - uint64(n)
				if _, err := t.A.Chain.ResetTo(target); err != nil {
					return false
				}
				ops := t.St.Aux["ops"] + fmt.Sprintf(";R:%d", target)
				now := t.A.Chain.Head.Time()
				for i := 0; i < len(alt); i++ {
					now += 21 // never the abandoned block's timestamp (+20)
					var blk *types.Block
					if alt[i] == 'E' {
						blk = t.A.Empty()
					} else {
						// re-open with an eligible proposer on the reset image
						r, err := world.Open(t.Opts, replica.Snapshot(t.A.DB), now)
						if err != nil {
							return false
						}
						t.A = r
						blk = t.A.Propose(now)
					}
					if err := t.A.Add(blk); err != nil {
						return false
					}
					bb, _ := blk.ToBytes()
					ops += ";B:" + hex.EncodeToString(bb)
				}
				if now > t.Now {
					t.Now = now
				}
				t.NextAux["ops"] = ops
				t.NextAux["keyx"] = fmt.Sprintf(" reorged-at=%d", target)
				if t.C.Check {
					t.C.Count("reorg_transitions", 1)
					return afterTransition(t)
				}
				return true
			}})
		}
	}
	m.H.Always = true
	m.H.Inserted = func(t *chainprop.Trans) bool {
		bb, _ := t.Block.ToBytes()
		addOp(t.NextAux, t.St.Aux["ops"], "B:"+hex.EncodeToString(bb))
		if !t.C.Check {
			return true
		}
		return afterTransition(t)
	}
	return m
}

func afterTransition(t *chainprop.Trans) bool {
	c := t.C
	// the restarted replica of this transition
	if !followDiffs(c, t.Opts, t.A, "restarted-node") {
		return false
	}
	// the never-restarted replica that went through the whole history incl. reorgs
	L, err := longLived(t.Opts, opsOf(t.NextAux))
	if err != nil {
		c.Violation("history-replay-rejected", "a never-restarted replica cannot follow the history: "+err.Error(), nil)
		return false
	}
	if L.Chain.Head.Height() != t.A.Chain.Head.Height() || L.App.IdentityState.Root() != t.A.App.IdentityState.Root() {
		c.Violation("history-replay-diverged", fmt.Sprintf("never-restarted replica ends at %d/%x, restarted one at %d/%x", L.Chain.Head.Height(), L.App.IdentityState.Root().Bytes()[:6], t.A.Chain.Head.Height(), t.A.App.IdentityState.Root().Bytes()[:6]), nil)
		return false
	}
	if !followDiffs(c, t.Opts, L, "long-lived-node") {
		return false
	}
	c.Count("followers_run", 2)
	// (b) snapshot round trip of both trees of this state
	if !snapshotRoundTrip(c, t.A) {
		return false
	}
	c.Outcome(fmt.Sprintf("height=%d reorged=%v", t.A.Chain.Head.Height(), strings.Contains(t.NextAux["ops"], "R:")))
	c.Sample(map[string]interface{}{"scenario": t.M.Scn[t.Scn], "trace": c.Labels(), "height": t.A.Chain.Head.Height(), "ops": len(opsOf(t.NextAux))})
	return true
}

func main() {
	run := report.New("C11")
	m := newModel(run.Thorough())
	if chainmc.IsWorker() {
		chainmc.WorkerMain(m)
		return
	}
	if run.Replay != "" {
		chainmc.ReplayFile(run, m)
		return
	}
	run.SetBudget(6*60e9, 20*60e9)
	depth := 4
	if run.Thorough() {
		depth = 5
	}
	// (d) whole fast syncs by the real protocol.fastSync: what the synced node stores for the heights it did not
	// execute (identity diffs, certificates) is what it serves to the next syncing node
	fsync.Part(run, false)
	chainmc.Explore(run, m, chainmc.Config{Depth: depth, Chunk: 3})
	snapshotPart(run)
	run.Set("evaluations", run.Get("diffs_replayed")+run.Get("snapshot_roundtrips")+run.Get("corrupted_imports")+run.Get("fast_sync_heights_compared"))
	run.Set("distinct_nontrivial", run.Get("states"))
	run.Assume = append(run.Assume, "the follower applies diffs exactly like protocol/fast.go (AddDiff, root check, CommitTree only for non-empty diffs, UpdateFromIdentityStateDiff)",
		"snapshot corruption model: single-bit flips, byte substitutions, truncations and tar-member drop/duplicate/swap of archives <= the size bound")
	run.Finish("model_checking", "(a) BFS over histories of real block transitions incl. 8 reorganisation actions (drop 1-2 blocks, continue with E/P/EE/PE); after every transition two followers (for the restarted and for the never-restarted node) replay every served diff and compare root per height and the resulting validator view; (b) WriteTreeTo2/ReadTreeFrom2 round trip for the state and identity tree of every explored state and for synthetic trees; (c) every single-bit flip / byte substitution / truncation / member edit of small archives: import ok => advertised root and contents, import error => empty target, never a panic")
}
