// C01 — state transition is a pure function of (prior state, block) on every node.
//
// For every transition of an explicit-state search the same block is applied on replicas
// that differ only in node-local things: iteration order of every Go map / set in the
// state-transition packages (choice points injected by the maporder overlay, deviation
// bounded), host time zone, wall clock, and node history (restarted, never restarted,
// reorged, holding a sibling branch, full-sync style long-lived check state, proposer-
// warmed caches). All must produce byte-identical results.
package main

import (
	"encoding/hex"
	"fmt"
	"sort"
	"strings"
	"time"

	"github.com/idena-network/idena-go/blockchain/types"
	"github.com/idena-network/idena-go/common"
	"github.com/idena-network/idena-go/config"
	"github.com/idena-network/idena-go/core/state"
	"github.com/idena-network/idena-go/crypto"
	"github.com/idena-network/idena-go/stats/collector"
	"github.com/idena-network/idena-go/verifhook"
	"verif/mc/chainmc"
	"verif/mc/chainprop"
	"verif/mc/replica"
	"verif/mc/report"
	"verif/mc/world"
)

var zones = []struct {
	name string
	off  int
}{{"UTC-12", -12 * 3600}, {"UTC-5", -5 * 3600}, {"UTC+5:30", 5*3600 + 1800}, {"UTC+9", 9 * 3600}, {"UTC+10", 10 * 3600}, {"UTC+14", 14 * 3600}}

// ---------------------------------------------------------------- observations

type obs struct {
	Err      string
	Root     string
	IdRoot   string
	Global   string
	Diff     string
	Receipts string
	Image    string
}

func observe(r *replica.Replica, blk *types.Block, err error) obs {
	o := obs{}
	if err != nil {
		o.Err = chainprop.ErrClass(err)
		return o
	}
	o.Root = hex.EncodeToString(r.App.State.Root().Bytes()[:10])
	o.IdRoot = hex.EncodeToString(r.App.IdentityState.Root().Bytes()[:10])
	g := r.App.State.GetOrNewGlobalObject()
	o.Global = fmt.Sprintf("ep=%d nvt=%d fee=%v vrf=%v per=%d shards=%d", g.Epoch(), r.App.State.NextValidationTime().Unix(), r.App.State.FeePerGas(), r.App.State.VrfProposerThreshold(), r.App.State.ValidationPeriod(), r.App.State.ShardsNum())
	if d := r.Chain.GetIdentityDiff(blk.Height()); d != nil {
		b, _ := d.ToBytes()
		o.Diff = crypto.Keccak256Hash(b).Hex()[:14]
	}
	var rs []string
	for _, tx := range blk.Body.Transactions {
		if rc := r.Chain.GetReceipt(tx.Hash()); rc != nil {
			b, _ := rc.ToBytes()
			rs = append(rs, crypto.Keccak256Hash(b).Hex()[:10])
		}
	}
	o.Receipts = strings.Join(rs, ",")
	o.Image = world.ConsensusImage(replica.Snapshot(r.DB)).Hash().Hex()[:14]
	return o
}

func (o obs) sameResult(p obs) bool {
	return o.Err == p.Err && o.Root == p.Root && o.IdRoot == p.IdRoot && o.Global == p.Global && o.Diff == p.Diff && o.Receipts == p.Receipts
}

func (o obs) String() string {
	if o.Err != "" {
		return "error: " + o.Err
	}
	return fmt.Sprintf("root=%s idroot=%s %s diff=%s receipts=%s", o.Root, o.IdRoot, o.Global, o.Diff, o.Receipts)
}

// ---------------------------------------------------------------- map order strategies

func permOf(strat string, n int) []int {
	p := make([]int, n)
	for i := range p {
		p[i] = i
	}
	switch {
	case strat == "reverse":
		for i, j := 0, n-1; i < j; i, j = i+1, j-1 {
			p[i], p[j] = p[j], p[i]
		}
	case strat == "rotate1":
		for i := range p {
			p[i] = (i + 1) % n
		}
	case strat == "swap-first":
		p[0], p[1] = p[1], p[0]
	case strat == "swap-last":
		p[n-1], p[n-2] = p[n-2], p[n-1]
	case strat == "middle-first":
		m := n / 2
		p[0], p[m] = p[m], p[0]
	case strings.HasPrefix(strat, "lex:"):
		var nn, k int
		fmt.Sscanf(strat, "lex:%d:%d", &nn, &k)
		if nn != n {
			return nil
		}
		// k-th permutation in lexicographic order
		el := make([]int, n)
		for i := range el {
			el[i] = i
		}
		f := 1
		for i := 2; i < n; i++ {
			f *= i
		}
		for i := 0; i < n; i++ {
			idx := 0
			if f > 0 {
				idx = k / f
				k %= f
			}
			p[i] = el[idx]
			el = append(el[:idx], el[idx+1:]...)
			if n-1-i > 0 {
				f /= (n - 1 - i)
			}
		}
	}
	return p
}

func strategies(maxN int) []string {
	var s []string
	if maxN <= 4 {
		f := 1
		for i := 2; i <= maxN; i++ {
			f *= i
		}
		for k := 1; k < f; k++ {
			s = append(s, fmt.Sprintf("lex:%d:%d", maxN, k))
		}
		if maxN > 2 {
			s = append(s, "reverse", "swap-first")
		}
		return s
	}
	return []string{"reverse", "rotate1", "swap-first", "swap-last", "middle-first"}
}

type deviation struct{ site, strat string }

func withOrder(devs []deviation, f func()) {
	verifhook.OrderChooser = func(site string, n int) []int {
		for _, d := range devs {
			if d.site == site {
				return permOf(d.strat, n)
			}
		}
		return nil
	}
	defer func() { verifhook.OrderChooser = nil }()
	f()
}

func traceSites(f func()) map[string]int {
	seen := map[string]int{}
	verifhook.OrderTrace = func(site string, n int) {
		if n > seen[site] {
			seen[site] = n
		}
	}
	defer func() { verifhook.OrderTrace = nil }()
	f()
	return seen
}

// ---------------------------------------------------------------- the model

func blocksOf(aux map[string]string) []*types.Block {
	var out []*types.Block
	if aux["blocks"] == "" {
		return nil
	}
	for _, h := range strings.Split(aux["blocks"], ";") {
		b, _ := hex.DecodeString(h)
		blk := new(types.Block)
		if err := blk.FromBytes(b); err != nil {
			panic(err)
		}
		out = append(out, blk)
	}
	return out
}

const vkey = world.X2

func g4() replica.Opts {
	// 300 Verified identities: mainnet-like network size for epoch-length arithmetic; the first
	// validation is on a Saturday 15:00 UTC and the real (weekday-normalised) epoch length is used
	o := replica.Opts{KeyIdx: world.G, God: world.G, Consensus: world.Consensus(), GodInvites: 5, WithCeremony: true,
		Alloc: map[common.Address]config.GenesisAllocation{world.A(world.G): {Balance: replica.Dna(1000)}}}
	for i := 0; i < 300; i++ {
		var a common.Address
		a.SetBytes(crypto.Keccak256([]byte(fmt.Sprintf("verif-g4-%d", i)))[:20])
		o.Alloc[a] = config.GenesisAllocation{State: uint8(state.Verified), Stake: replica.Dna(10)}
	}
	o.FirstCeremonyTime = time.Date(2023, 11, 18, 15, 0, 0, 0, time.UTC).Unix() // Saturday after T0
	return o
}

func newModel(thorough bool) *chainprop.Model {
	m := &chainprop.Model{Menu: world.Menu()}
	m.Std()
	m.Scn, m.Opts, m.Prefix = append(m.Scn, "G4-300-verified(real epoch length)"), append(m.Opts, g4()), append(m.Prefix, nil)
	cn, co, cp := chainprop.CeremonyScenario()
	m.Scn, m.Opts, m.Prefix = append(m.Scn, cn), append(m.Opts, co), append(m.Prefix, cp)
	// (appended last: scenario indices of saved replays stay valid) two shards of equal size
	ts := world.GenesisG2()
	ts.WithCeremony = true
	ts.GenesisEdit = "two-equal-shards"
	m.Scn, m.Opts, m.Prefix = append(m.Scn, "G2-two-equal-shards"), append(m.Opts, ts), append(m.Prefix, nil)
	m.StdDrive()
	m.Acts = append(m.Acts,
		m.FullCeremony("ceremony(all five answer)", []string{"V1", "V2", "N1", "C1", "G"}, []string{"good", "good", "mostly", "good", "mixed"}, []string{"V1", "V2", "N1", "G"}),
		m.FullCeremony("ceremony(V2,N1,C1 answer)", []string{"V2", "N1", "C1"}, []string{"good", "good", "good"}, []string{"V2", "N1"}),
	)
	m.Acts = append(m.Acts,
		m.Drive("send X1->X2 1", "send X2 second", "online V2", "kill D1"),
		m.Drive("call contract0 transfer->X2 1 by owner X1", "fund contract0 X2 5", "terminate contract0 by X2 (not owner)"),
		m.Drive("killDelegator P->D1", "undelegate D1", "replenish X1->NEW 10"),
		m.Drive("killDelegator P->N1"),
	)
	m.H.Always = true
	m.H.Proposed = func(t *chainprop.Trans) bool {
		c := t.C
		blk := t.Block
		apply := func(r *replica.Replica, now int64) obs {
			var err error
			func() {
				defer func() {
					if p := recover(); p != nil {
						err = fmt.Errorf("PANIC %v", p)
					}
				}()
				replica.SetTime(now)
				r.Activate()
				err = r.Chain.AddBlock(blk, nil, collector.NewStatsCollector())
			}()
			return observe(r, blk, err)
		}
		fresh := func() *replica.Replica {
			r, err := world.OpenAs(t.Opts, t.St.Img, t.Now, vkey)
			if err != nil {
				panic(err)
			}
			return r
		}
		// canonical validator (canonical map order, UTC, clock = block time); records the order sites
		var canon obs
		sites := traceSites(func() { canon = apply(fresh(), t.Now) })
		if canon.Err != "" {
			c.Violation("canonical-validator-rejects", "the canonical validator rejects the honest block: "+canon.Err, nil)
			return false
		}
		c.Count("replica_runs", 1)
		bclass := "ordinary-block"
		if blk.Header.Flags().HasFlag(types.ValidationFinished) {
			bclass = "epoch-finishing-block"
		}
		cmp := func(kind, variant string, o obs, fullImage bool) bool {
			c.Count("replica_runs", 1)
			if !o.sameResult(canon) || fullImage && o.Image != canon.Image {
				key := "diverges:" + kind + ":" + variantClass(variant)
				if kind == "history" {
					key += ":" + bclass
				}
				c.Violation(key, fmt.Sprintf("applying the same block (height %d, flags %d, %d txs) gives a different result on a replica that differs only in %s=%s:\n    canonical: %v\n    variant:   %v", blk.Height(), blk.Header.Flags(), len(blk.Body.Transactions), kind, variant, canon, o), map[string]interface{}{"kind": kind, "variant": variant})
				return false
			}
			return true
		}
		// 1. map / set iteration order, deviation bound 1 (thorough: pairs of sites)
		var names []string
		for s, n := range sites {
			if n >= 2 {
				names = append(names, s)
			}
		}
		sort.Strings(names)
		c.Count("order_sites_fired", len(names))
		for _, s := range names {
			c.Outcome("site:" + s)
			for _, st := range strategies(sites[s]) {
				var o obs
				withOrder([]deviation{{s, st}}, func() { o = apply(fresh(), t.Now) })
				c.Count("order_vectors", 1)
				if !cmp("map-order", s+"/"+st, o, true) {
					return false
				}
			}
		}
		if thorough {
			for i := 0; i < len(names); i++ {
				for j := i + 1; j < len(names); j++ {
					for _, st := range []string{"reverse", "swap-first"} {
						var o obs
						withOrder([]deviation{{names[i], st}, {names[j], "reverse"}}, func() { o = apply(fresh(), t.Now) })
						c.Count("order_vectors", 1)
						if !cmp("map-order-pair", names[i]+"/"+st+"+"+names[j]+"/reverse", o, true) {
							return false
						}
					}
				}
			}
		}
		// the proposer under a deviating order must still build a block every canonical validator accepts
		for _, s := range names {
			var pb *types.Block
			withOrder([]deviation{{s, "reverse"}}, func() {
				P, err := world.OpenAs(t.Opts, t.St.Img, t.Now, t.A.Opts.KeyIdx)
				if err != nil {
					panic(err)
				}
				replica.SetTime(t.Now)
				if blk.IsEmpty() {
					pb = P.Empty()
				} else {
					pb = P.Chain.VerifProposeBlockWithTxs([]byte{}, blk.Body.Transactions).Block
				}
			})
			V := fresh()
			replica.SetTime(t.Now)
			c.Count("replica_runs", 1)
			if err := V.Chain.AddBlock(pb, nil, collector.NewStatsCollector()); err != nil {
				c.Violation("proposer-order-dependent:"+s, fmt.Sprintf("a block built under iteration order %s/reverse is rejected by a canonical validator: %v", s, err), nil)
				return false
			}
		}
		// 2. host time zone
		for _, z := range zones {
			time.Local = time.FixedZone(z.name, z.off)
			o := apply(fresh(), t.Now)
			time.Local = time.UTC
			if !cmp("time-zone", z.name, o, true) {
				return false
			}
		}
		// 3. wall clock of the validating node
		for _, d := range []int64{100, 86400} {
			// (the epoch database records the node's own receipt time of answer hashes: the image is
			// legitimately clock dependent there, the results must not be)
			if !cmp("wall-clock", fmt.Sprintf("+%ds", d), apply(fresh(), t.Now+d), false) {
				return false
			}
		}
		// 4. histories
		hist := blocksOf(t.St.Aux)
		//   never-restarted replica that followed the whole history
		func() {
			o := t.Opts
			o.Ipfs, o.KeyIdx = world.Net, vkey
			replica.SetTime(world.T0)
			L, err := replica.New(o, replica.Image(nil).NewDB())
			if err != nil {
				panic(err)
			}
			for _, b := range hist {
				if err := L.Add(b); err != nil {
					c.Violation("diverges:history:never-restarted-replay", "a never-restarted replica rejects an earlier block of the history: "+err.Error(), nil)
					return
				}
			}
			cmp("history", "never-restarted", apply(L, t.Now), false)
		}()
		//   full-sync style: one long-lived check state with overwrite
		func() {
			o := t.Opts
			o.Ipfs, o.KeyIdx = world.Net, vkey
			replica.SetTime(world.T0)
			S, err := replica.New(o, replica.Image(nil).NewDB())
			if err != nil {
				panic(err)
			}
			cs, err := S.App.ForCheckWithOverwrite(S.Chain.Head.Height())
			if err != nil {
				panic(err)
			}
			replica.SetTime(t.Now)
			S.Activate()
			for _, b := range append(append([]*types.Block{}, hist...), blk) {
				if err := S.Chain.AddBlock(b, cs, collector.NewStatsCollector()); err != nil {
					c.Count("replica_runs", 1)
					c.Violation("diverges:history:full-sync-check-state", fmt.Sprintf("a node applying the history with one long-lived check state (protocol/full.go style) rejects block %d: %v", b.Height(), err), nil)
					return
				}
				if err := cs.FinalizePrecommit(b); err != nil {
					c.Violation("diverges:history:full-sync-finalize", err.Error(), nil)
					return
				}
			}
			cmp("history", "full-sync-long-lived-check-state", observe(S, blk, nil), false)
		}()
		//   reorged replica: was one block ahead on a sibling branch, rolled back
		for _, sib := range []string{"empty", "proposed"} {
			R := fresh()
			var sb *types.Block
			if sib == "empty" {
				sb = R.Empty()
			} else {
				P, err := world.Open(t.Opts, t.St.Img, t.Now+3)
				if err != nil {
					continue
				}
				sb = P.Propose(t.Now + 3)
			}
			if sb.Hash() == blk.Hash() {
				continue
			}
			replica.SetTime(t.Now + 3)
			if err := R.Chain.AddBlock(sb, nil, collector.NewStatsCollector()); err != nil {
				continue
			}
			// holding the sibling: speculative fork validation must give the head-extension verdict
			replica.SetTime(t.Now + 3)
			c.Count("replica_runs", 1)
			if err := R.Chain.VerifValidateOnFork(blk.Height()-1, blk); err != nil {
				c.Violation("diverges:history:fork-validation-while-on-"+sib+"-sibling:"+bclass, fmt.Sprintf("a node whose head is a sibling (%s) block rejects the block (height %d, flags %d) in speculative fork validation: %v", sib, blk.Height(), blk.Header.Flags(), err), nil)
			}
			if _, err := R.Chain.ResetTo(blk.Height() - 1); err != nil {
				continue
			}
			cmp("history", "reorged-from-"+sib+"-sibling", apply(R, t.Now+3), false)
		}
		//   proposer-warmed caches: a node that proposed on this state first, then validates
		func() {
			W := fresh()
			replica.SetTime(t.Now)
			W.Chain.ProposeBlock([]byte{})
			cmp("history", "proposed-first(warm caches)", apply(W, t.Now), true)
		}()
		c.Sample(map[string]interface{}{"scenario": t.M.Scn[t.Scn], "trace": c.Labels(), "height": blk.Height(), "flags": blk.Header.Flags(), "order_sites": names})
		return true
	}
	m.H.Inserted = func(t *chainprop.Trans) bool {
		bb, _ := t.Block.ToBytes()
		if t.St.Aux["blocks"] == "" {
			t.NextAux["blocks"] = hex.EncodeToString(bb)
		} else {
			t.NextAux["blocks"] = t.St.Aux["blocks"] + ";" + hex.EncodeToString(bb)
		}
		return true
	}
	return m
}

func variantClass(v string) string {
	if i := strings.Index(v, "/"); i > 0 {
		return v[:i]
	}
	return v
}

// pure time functions, enumerated at the narrow seam
func timeFunctions(run *report.Run) {
	cfg := &config.ValidationConfig{}
	sizes := []int{0, 1, 2, 5, 17, 45, 96, 176, 290, 291, 300, 500, 1000, 5000, 20000}
	start := time.Date(2023, 5, 1, 0, 0, 0, 0, time.UTC).Unix()
	n := 0
	for _, up12 := range []bool{false, true} {
		for _, size := range sizes {
			for q := int64(0); q < 4*7*24*4; q++ {
				ts := start + q*900
				time.Local = time.UTC
				want := cfg.GetNextValidationTime(time.Unix(ts, 0), size, up12).Unix()
				for _, z := range zones {
					time.Local = time.FixedZone(z.name, z.off)
					got := cfg.GetNextValidationTime(time.Unix(ts, 0), size, up12).Unix()
					n++
					if got != want {
						time.Local = time.UTC
						run.Violation("next-validation-time-depends-on-zone", fmt.Sprintf("GetNextValidationTime(%s, networkSize=%d, upgrade12=%v) = %s on a host in UTC but %s on a host in %s",
							time.Unix(ts, 0).UTC().Format(time.RFC1123), size, up12, time.Unix(want, 0).UTC().Format(time.RFC1123), time.Unix(got, 0).UTC().Format(time.RFC1123), z.name),
							map[string]interface{}{"ts": ts, "size": size, "upgrade12": up12, "zone": z.name})
						run.Set("time_function_evaluations", n)
						return
					}
				}
			}
		}
	}
	time.Local = time.UTC
	run.Set("time_function_evaluations", n)
}

func main() {
	time.Local = time.UTC
	run := report.New("C01")
	m := newModel(run.Thorough())
	if chainmc.IsWorker() {
		chainmc.WorkerMain(m)
		return
	}
	if run.Replay != "" {
		chainmc.ReplayFile(run, m)
		return
	}
	run.SetBudget(7*60e9, 20*60e9)
	timeFunctions(run)
	depth := 2
	if run.Thorough() {
		depth = 3
	}
	chainmc.Explore(run, m, chainmc.Config{Depth: depth, Chunk: 2})
	run.Set("evaluations", run.Get("replica_runs")+run.Get("time_function_evaluations"))
	run.Set("distinct_nontrivial", run.Get("order_vectors"))
	run.Assume = append(run.Assume,
		"content identifiers via memoryIpfs (both sides the same function)",
		"map-order deviation bound 1 (thorough: pairs of sites); a deviating site deviates at all its occurrences; n<=4: all n! orders, else reverse/rotate/swap-first/swap-last/middle-first",
		"goroutine timing of the ceremony's lottery goroutine is pinned to 'finished before the next block' (inline); epoch results with participants are C17's subject")
	run.Finish("model_checking", "for every transition of a BFS over real block transitions (5 scenarios incl. a 300-identity network with the real weekday-normalised epoch length; driving alphabet incl. the epoch macro, contracts, pools) the block is applied on replicas differing in: iteration order at each fired map/set site (85 instrumented sites), 6 host time zones, wall clock +100s/+1d, history (never restarted, full-sync long-lived check state, reorged from an empty/proposed sibling, fork validation while on the sibling, proposer-warmed caches); byte equality of roots, global parameters, identity diff, receipts and (where applicable) the whole database image; plus GetNextValidationTime over 15 network sizes x 2688 quarter-hours x both upgrade flags x 6 zones")
}
