package main

import (
	"fmt"
	"os"
	"strings"

	"github.com/idena-network/idena-go/blockchain/types"
	"verif/mc/chainprop"
	"verif/mc/replica"
	"verif/mc/world"
)

// usage: dbg "tmpl a|tmpl b" "tmpl c" ...   (one arg per block, on G2)
func main() {
	m := &chainprop.Model{Menu: world.Menu()}
	o := world.GenesisG2()
	o.WithCeremony = true
	r, err := world.Open(o, nil, world.T0)
	if err != nil {
		panic(err)
	}
	now := world.T0
	for _, arg := range os.Args[1:] {
		img := replica.Snapshot(r.DB)
		r, err = world.Open(o, img, now)
		if err != nil {
			panic(err)
		}
		now += 20
		b := world.NewB(r)
		var txs []*types.Transaction
		for _, n := range strings.Split(arg, "|") {
			if n == "" {
				continue
			}
			txs = append(txs, m.Menu[m.Idx(n)].Build(b))
		}
		errs := world.Submit(r, txs)
		blk := r.Propose(now)
		fmt.Printf("block %d proposer=%s admit=%v txs=%v flags=%d\n", blk.Height(), world.ActorNames[r.Opts.KeyIdx], errs, chainprop.TxTypes(blk), blk.Header.Flags())
		if err := r.Add(blk); err != nil {
			fmt.Println("  add error:", err)
		}
		for _, tx := range blk.Body.Transactions {
			if rc := r.Chain.GetReceipt(tx.Hash()); rc != nil {
				fmt.Printf("  receipt success=%v gas=%d err=%v contract=%s\n", rc.Success, rc.GasUsed, rc.Error, rc.ContractAddress.Hex())
			}
		}
		fmt.Println("  contract0:", world.NewB(r).Contract(0))
	}
}
