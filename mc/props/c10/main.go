// C10 — the validator registry is consistent with the ledger and with its own rebuild.
//
// Histories of identity-changing events on real chains. After every block:
//  (a) the validator view maintained incrementally by a replica that followed the whole
//      history without restart (and the one of a replica restarted one block earlier) is
//      compared, getter by getter, with a fresh view loaded from the same committed state;
//  (b) the stored registry (identity state tree) is compared with the identity ledger.
package main

import (
	"encoding/hex"
	"fmt"
	"strings"

	"github.com/idena-network/idena-go/blockchain/types"
	"github.com/idena-network/idena-go/common"
	"github.com/idena-network/idena-go/core/state"
	"github.com/idena-network/idena-go/core/validators"
	"github.com/idena-network/idena-go/crypto"
	"verif/mc/chainmc"
	"verif/mc/chainprop"
	"verif/mc/monitors"
	"verif/mc/replica"
	"verif/mc/report"
	"verif/mc/world"
)

func actorAddrs() []common.Address {
	var r []common.Address
	for i := 0; i <= world.NEW2; i++ {
		r = append(r, world.A(i))
	}
	return r
}

func blocksOf(aux map[string]string) []*types.Block {
	var out []*types.Block
	if aux["blocks"] == "" {
		return nil
	}
	for _, h := range strings.Split(aux["blocks"], ";") {
		b, _ := hex.DecodeString(h)
		blk := new(types.Block)
		if err := blk.FromBytes(b); err != nil {
			panic(err)
		}
		out = append(out, blk)
	}
	return out
}

func newModel(thorough bool) *chainprop.Model {
	m := &chainprop.Model{Menu: world.Menu()}
	m.Std()
	m.Scn, m.Opts, m.Prefix = m.Scn[1:], m.Opts[1:], m.Prefix[1:]
	cn, co, cp := chainprop.CeremonyScenario()
	m.Scn, m.Opts, m.Prefix = append(m.Scn, cn), append(m.Opts, co), append(m.Prefix, cp)
	m.Acts = append(m.Acts,
		m.FullCeremony("ceremony(all five answer)", []string{"V1", "V2", "N1", "C1", "G"}, []string{"good", "good", "mostly", "good", "mixed"}, []string{"V1", "V2", "N1", "G"}),
		m.FullCeremony("ceremony(V2,N1,C1 answer)", []string{"V2", "N1", "C1"}, []string{"good", "good", "good"}, []string{"V2", "N1"}),
	)
	add := func(names ...string) { m.Acts = append(m.Acts, m.Drive(names...)) }
	add("online V1", "online P")
	add("changeGod G->X2") // god-only committees must follow the god address on a long-running node too
	add("online V2", "offline V1")
	add("offline P")
	add("delegate D1->P", "delegate D2->P")
	add("delegate C1->V1")
	add("delegate V1->V2")
	add("delegate X1->P")
	add("delegate N1->NEW")
	add("undelegate D1")
	add("kill V2")
	add("kill D1")
	add("kill P")
	add("killDelegator P->D1")
	add("killDelegator P->D2")
	add("replenish X1->D2 bal")
	add("online D1")
	add("delegate N1->P")
	add("killDelegator P->N1")
	// a pool whose owner is not a validated identity: going online while its delegators leave
	add("delegate D1->X2")
	add("online X2")
	add("online X2", "undelegate D1")
	add("online X2", "kill D1")
	m.Acts = append(m.Acts, chainprop.Action{Name: "block-proposed-by-pool-P", By: "P", Expand: true})
	m.Acts = append(m.Acts,
		chainprop.Action{Name: "empty-block", Empty: true, Expand: true},
		chainprop.Action{Name: "run-ceremony-to-epoch-end", Macro: "epoch", Expand: true},
	)
	m.H.Always = true
	m.H.Inserted = func(t *chainprop.Trans) bool {
		c := t.C
		bb, _ := t.Block.ToBytes()
		if t.St.Aux["blocks"] == "" {
			t.NextAux["blocks"] = hex.EncodeToString(bb)
		} else {
			t.NextAux["blocks"] = t.St.Aux["blocks"] + ";" + hex.EncodeToString(bb)
		}
		// long-lived replica: follows the whole history from genesis without a restart
		o := t.Opts
		o.Ipfs = world.Net
		o.KeyIdx = world.X2
		replica.SetTime(world.T0)
		L, err := replica.New(o, replica.Image(nil).NewDB())
		if err != nil {
			panic(err)
		}
		for _, blk := range blocksOf(t.NextAux) {
			if err := L.Add(blk); err != nil {
				c.Violation("history-replay-rejected", "a replica following the history from genesis rejects a block the restarted replicas accepted: "+err.Error(), nil)
				return false
			}
		}
		addrs := actorAddrs()
		live := monitors.ObserveCache(L.App.ValidatorsCache, addrs)
		t.NextAux["keyx"] = " vc=" + crypto.Keccak256Hash([]byte(monitors.ObsFingerprint(live))).Hex()[:14]
		if !c.Check {
			return true
		}
		c.Count("views_compared", 1)
		fresh := validators.NewValidatorsCache(L.App.IdentityState, L.App.State.GodAddress())
		fresh.Load()
		ref := monitors.ObserveCache(fresh, addrs)
		if d := monitors.DiffObs(live, ref); len(d) > 0 {
			c.Violation("incremental-vs-loaded:"+strings.SplitN(d[0], "/", 2)[0], fmt.Sprintf("validator view maintained incrementally over the history differs from a fresh load of the same committed state at height %d: %v", t.Block.Height(), d), nil)
			return false
		}
		// the replica restarted one block earlier (load + one incremental update)
		one := monitors.ObserveCache(t.A.App.ValidatorsCache, addrs)
		if d := monitors.DiffObs(one, ref); len(d) > 0 {
			c.Violation("restart+1-vs-loaded:"+strings.SplitN(d[0], "/", 2)[0], fmt.Sprintf("view after restart + one block differs from a fresh load at height %d: %v", t.Block.Height(), d), nil)
			return false
		}
		// clones handed out to speculative views
		if cs, err := L.App.ForCheck(L.Chain.Head.Height()); err == nil {
			if d := monitors.DiffObs(monitors.ObserveCache(cs.ValidatorsCache, addrs), ref); len(d) > 0 {
				c.Violation("forcheck-clone-vs-loaded", fmt.Sprintf("ForCheck view differs from a fresh load: %v", d), nil)
				return false
			}
		}
		if ro, err := L.App.Readonly(L.Chain.Head.Height()); err == nil {
			if d := monitors.DiffObs(monitors.ObserveCache(ro.ValidatorsCache, addrs), ref); len(d) > 0 {
				c.Violation("readonly-clone-vs-loaded", fmt.Sprintf("Readonly view differs from a fresh load: %v", d), nil)
				return false
			}
		}
		// (b) registry vs ledger
		st := L.App.State
		reg := map[common.Address]state.ApprovedIdentity{}
		L.App.IdentityState.IterateIdentities(func(key []byte, value []byte) bool {
			if key == nil {
				return true
			}
			var a common.Address
			a.SetBytes(key[1:])
			var d state.ApprovedIdentity
			if d.FromBytes(value) == nil {
				reg[a] = d
			}
			return false
		})
		check := func(a common.Address) bool {
			id := st.GetIdentity(a)
			r := reg[a]
			want := id.State.NewbieOrBetter()
			if r.Validated != want {
				c.Violation("registry-validated-mismatch", fmt.Sprintf("address %s: registry validated=%v but ledger status=%d at height %d", a.Hex(), r.Validated, id.State, t.Block.Height()), nil)
				return false
			}
			if r.Validated {
				ld := id.Delegatee()
				if (ld == nil) != (r.Delegatee == nil) || ld != nil && *ld != *r.Delegatee {
					// a pending delegation switch is applied to both at the same block, so they must agree
					c.Violation("registry-delegatee-mismatch", fmt.Sprintf("address %s: registry delegatee=%v ledger delegatee=%v at height %d", a.Hex(), r.Delegatee, ld, t.Block.Height()), nil)
					return false
				}
			}
			if r.Online && !r.Validated && !fresh.IsPool(a) {
				c.Violation("online-not-validated", fmt.Sprintf("address %s is online in the registry but neither validated nor a pool at height %d", a.Hex(), t.Block.Height()), nil)
				return false
			}
			return true
		}
		seen := map[common.Address]bool{}
		for a := range reg {
			seen[a] = true
			if !check(a) {
				return false
			}
		}
		ok := true
		st.IterateOverIdentities(func(a common.Address, id state.Identity) {
			if ok && !seen[a] {
				ok = check(a)
			}
		})
		if !ok {
			return false
		}
		c.Outcome(fmt.Sprintf("net=%s online=%s pools=%d", ref["NetworkSize"], ref["OnlineSize"], strings.Count(monitors.ObsFingerprint(ref), "IsPool/")-strings.Count(monitors.ObsFingerprint(ref), "=false;IsPool")))
		if len(reg) > 0 {
			c.Sample(map[string]interface{}{"scenario": t.M.Scn[t.Scn], "trace": c.Labels(), "registry_entries": len(reg), "network": ref["NetworkSize"], "online": ref["OnlineSize"]})
		}
		return true
	}
	return m
}

func main() {
	run := report.New("C10")
	m := newModel(run.Thorough())
	if chainmc.IsWorker() {
		chainmc.WorkerMain(m)
		return
	}
	if run.Replay != "" {
		chainmc.ReplayFile(run, m)
		return
	}
	run.SetBudget(8*60e9, 20*60e9)
	depth := 3
	if run.Thorough() {
		depth = 5
	}
	chainmc.Explore(run, m, chainmc.Config{Depth: depth, Chunk: 3})
	run.Set("evaluations", run.Get("views_compared"))
	run.Set("distinct_nontrivial", run.Get("states"))
	run.Finish("model_checking", "BFS over histories of identity-changing events (18 expandable actions: online/offline, delegations incl. non-validated / unknown / chained targets, kills, kill-delegator, replenish, epoch macro; switch ranges lowered to 2; 3 scenarios incl. an existing pool); state key = chain state + fingerprint of the live incremental view; after every block: incremental(history) vs fresh Load, restart+1 vs Load, ForCheck/Readonly clones vs Load (all public getters, committees for 3 seeds x 3 steps x 3 limits) and registry vs ledger")
}
