// C05 — a transaction can only spend its signer's funds.
//
// From every base state of the search, every (type, signer, target-relationship) template
// is offered alone; the block carrying exactly that transaction is compared, address by
// address, with the block proposed from the same state, by the same proposer at the same
// time, without it.
package main

import (
	"fmt"
	"sort"
	"math/big"

	"github.com/idena-network/idena-go/blockchain/types"
	"github.com/idena-network/idena-go/common"
	"verif/mc/chainmc"
	"verif/mc/chainprop"
	"verif/mc/monitors"
	"verif/mc/replica"
	"verif/mc/report"
	"verif/mc/world"
)

func relMenu() []world.Tmpl {
	var out []world.Tmpl
	signers := []int{world.G, world.V1, world.P, world.X1, world.I1, world.D1}
	type tgt struct {
		name string
		addr func(signer int) *common.Address
	}
	zero := common.Address{}
	targets := []tgt{
		{"self", func(s int) *common.Address { return world.PA(s) }},
		{"G", func(s int) *common.Address { return world.PA(world.G) }},
		{"P", func(s int) *common.Address { return world.PA(world.P) }},
		{"NEW", func(s int) *common.Address { return world.PA(world.NEW) }},
		{"NEW2", func(s int) *common.Address { return world.PA(world.NEW2) }},
		{"C1", func(s int) *common.Address { return world.PA(world.C1) }},
		{"I1", func(s int) *common.Address { return world.PA(world.I1) }},
		{"D1", func(s int) *common.Address { return world.PA(world.D1) }},
		{"D2", func(s int) *common.Address { return world.PA(world.D2) }},
		{"V2", func(s int) *common.Address { return world.PA(world.V2) }},
		{"K", func(s int) *common.Address { return world.PA(world.K) }},
		{"Z", func(s int) *common.Address { return world.PA(world.Z) }},
		{"X2", func(s int) *common.Address { return world.PA(world.X2) }},
		{"zero", func(s int) *common.Address { return &zero }},
		{"nil", func(s int) *common.Address { return nil }},
	}
	typesWithTo := []struct {
		name string
		t    types.TxType
		amt  int64
		pay  func(signer int, to *common.Address) []byte
	}{
		{"send", types.SendTx, 1, nil},
		{"invite", types.InviteTx, 1, nil},
		{"activation", types.ActivationTx, 0, func(s int, to *common.Address) []byte {
			for i := 0; i < 17; i++ {
				if to != nil && world.A(i) == *to {
					return world.PubKeyOf(i)
				}
			}
			return world.PubKeyOf(world.NEW)
		}},
		{"killInvitee", types.KillInviteeTx, 0, nil},
		{"changeGod", types.ChangeGodAddressTx, 0, nil},
		{"delegate", types.DelegateTx, 0, nil},
		{"killDelegator", types.KillDelegatorTx, 0, nil},
		{"replenish", types.ReplenishStakeTx, 1, nil},
		{"call", types.CallContractTx, 1, func(s int, to *common.Address) []byte { return world.CallPayload("transfer") }},
		{"terminate", types.TerminateContractTx, 0, func(s int, to *common.Address) []byte { return world.TerminatePayload() }},
	}
	for _, ty := range typesWithTo {
		for _, s := range signers {
			for _, tg := range targets {
				ty, s, tg := ty, s, tg
				out = append(out, world.Tmpl{Name: fmt.Sprintf("%s %s->%s", ty.name, world.ActorNames[s], tg.name), Build: func(b *world.B) *types.Transaction {
					to := tg.addr(s)
					sp := world.Spec{From: s, To: to, Type: ty.t, MaxFee: replica.Dna(5)}
					if ty.amt > 0 {
						sp.Amount = replica.Dna(ty.amt)
					}
					if ty.pay != nil {
						sp.Payload = ty.pay(s, to)
					}
					return b.Tx(sp)
				}})
			}
		}
	}
	// types without recipient, every signer class (kill, undelegate, online toggles)
	for _, s := range []int{world.G, world.V1, world.V2, world.P, world.D1, world.D2, world.N1, world.C1, world.S1, world.ZM, world.K, world.X1} {
		s := s
		out = append(out,
			world.Tmpl{Name: "kill " + world.ActorNames[s], Build: func(b *world.B) *types.Transaction { return b.Tx(world.Spec{From: s, Type: types.KillTx}) }},
			world.Tmpl{Name: "undelegate " + world.ActorNames[s], Build: func(b *world.B) *types.Transaction { return b.Tx(world.Spec{From: s, Type: types.UndelegateTx}) }},
			world.Tmpl{Name: "online " + world.ActorNames[s], Build: func(b *world.B) *types.Transaction {
				return b.Tx(world.Spec{From: s, Type: types.OnlineStatusTx, Payload: world.Online(true)})
			}},
		)
	}
	return out
}

func newModel(thorough bool) *chainprop.Model {
	base := world.Menu()
	m := &chainprop.Model{Menu: append(base, relMenu()...)}
	m.Scn, m.Opts = chainprop.StdScenarios()
	m.Scn, m.Opts = m.Scn[1:], m.Opts[1:] // G2 families (G1 has no relationships)
	rn, ro, rp := chainprop.RichScenario()
	m.Scn, m.Opts = append(m.Scn, rn), append(m.Opts, ro)
	m.Prefix = [][][]string{nil, nil, rp}
	m.StdDrive()
	m.Acts = append(m.Acts, m.Drive("invite V1->NEW"), m.Drive("killInvitee G->NEW"))
	m.Singles(false)
	m.TipsSingles() // every template once more with tips (tips are paid on top of amount and fee)
	// (appended last so that the indices of the earlier actions stay what saved replays recorded)
	// a candidate of the genesis (no inviter link) that holds stake: something a stranger could destroy
	m.Acts = append(m.Acts, m.Drive("replenish X1->C1 10"))
	m.H.Inserted = func(t *chainprop.Trans) bool {
		c := t.C
		if len(t.Block.Body.Transactions) != 1 {
			return true
		}
		tx := t.Block.Body.Transactions[0]
		signer, _ := types.Sender(tx)
		C, err := world.OpenAs(t.Opts, t.St.Img, t.Now, t.A.Opts.KeyIdx)
		if err != nil {
			return true
		}
		pre := C.App.State
		// relationships in the pre-state
		inviterOf := func(a common.Address) *common.Address {
			if inv := pre.GetInviter(a); inv != nil {
				return &inv.Address
			}
			return nil
		}
		type rel struct{ inviter, delegatee *common.Address }
		rels := map[common.Address]rel{}
		lpre := monitors.ReadLedger(C)
		for a := range lpre {
			rels[a] = rel{inviterOf(a), pre.Delegatee(a)}
		}
		blk := C.Propose(t.Now)
		if err := C.Add(blk); err != nil || len(blk.Body.Transactions) != 0 {
			return true
		}
		lw, lo := monitors.ReadLedger(t.A), monitors.ReadLedger(C)
		c.Count("differential_blocks", 1)
		lowered := 0
		all := map[common.Address]bool{}
		for a := range lw {
			all[a] = true
		}
		for a := range lo {
			all[a] = true
		}
		var addrs []common.Address
		for a := range all {
			addrs = append(addrs, a)
		}
		sort.Slice(addrs, func(i, j int) bool { return string(addrs[i][:]) < string(addrs[j][:]) })
		for _, a := range addrs {
			if a == signer {
				continue
			}
			with, without := new(big.Int), new(big.Int)
			if e, ok := lw[a]; ok {
				with = e.Funds()
			}
			if e, ok := lo[a]; ok {
				without = e.Funds()
			}
			d := new(big.Int).Sub(with, without)
			if d.Sign() >= 0 {
				continue
			}
			lowered++
			r := rels[a]
			switch {
			case tx.Type == types.KillInviteeTx && r.inviter != nil && *r.inviter == signer:
				c.Outcome("exception: inviter terminates own invitee")
				continue
			case tx.Type == types.KillDelegatorTx && r.delegatee != nil && *r.delegatee == signer:
				c.Outcome("exception: pool terminates own delegator")
				continue
			case (tx.Type == types.CallContractTx || tx.Type == types.TerminateContractTx || tx.Type == types.DeployContractTx) && pre.GetCodeHash(a) != nil:
				c.Outcome("exception: contract pays out of its own balance")
				continue
			}
			c.Violation(fmt.Sprintf("foreign-funds:type=%d", tx.Type), fmt.Sprintf("tx type %d signed by %s lowered funds of %s by %v (no inviter/delegatee/contract relationship)", tx.Type, signer.Hex(), a.Hex(), new(big.Int).Neg(d)), chainprop.TxTypes(t.Block))
			return false
		}
		c.Outcome(fmt.Sprintf("type=%d others-lowered=%d", tx.Type, lowered))
		c.Sample(map[string]interface{}{"scenario": t.M.Scn[t.Scn], "trace": c.Labels(), "tx": chainprop.TxTypes(t.Block), "addresses_compared": len(lw)})
		return true
	}
	return m
}

func main() {
	run := report.New("C05")
	m := newModel(run.Thorough())
	if chainmc.IsWorker() {
		chainmc.WorkerMain(m)
		return
	}
	if run.Replay != "" {
		chainmc.ReplayFile(run, m)
		return
	}
	run.SetBudget(8*60e9, 20*60e9)
	depth := 3
	if run.Thorough() {
		depth = 5
	}
	run.Set("menu_templates", len(m.Menu))
	chainmc.Explore(run, m, chainmc.Config{Depth: depth, Chunk: 64})
	run.Set("evaluations", run.Get("differential_blocks"))
	run.Set("distinct_nontrivial", run.Get("states"))
	run.Assume = append(run.Assume, "delayed effects a signer chooses for itself (delegation, going offline) are outside the per-transaction claim; only the inclusion block is compared")
	run.Finish("model_checking", "BFS (driving alphabet incl. invitation/pool building and the ceremony macro) over 2 genesis families; from every base state every template of the value menu plus every (type x signer x target relationship) template (self, god, pool, invitee, delegator, killed, unknown, zero, nil) is offered alone; the block with exactly that tx is compared per address with the tx-less block of the same proposer/time; exceptions are exactly the three named in the property")
}
