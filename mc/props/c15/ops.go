package main

// Operation grammar of the C15 alphabet. An operation is a string
//
//	"<signer> deploy <kind> <argset>"      kind: tl ms ov ol rol | wasm kinds erc inc sum tc sft bad
//	"<signer> call @<kind> <method> <argset>"
//	"<signer> term @<kind> <argset>"
//	"<signer> send @<kind> <dna>"           plain transfer to the contract address
//	"empty" / "empty*<n>"
//
// followed by optional "pay=<dna>" "gas=<units>" "stake=<min|low|high>" tokens. @<kind> is
// the first contract (in address order) with that code in the committed state.

import (
	"fmt"
	"math/big"
	"sort"
	"strconv"
	"strings"

	"github.com/idena-network/idena-go/blockchain/attachments"
	"github.com/idena-network/idena-go/blockchain/fee"
	"github.com/idena-network/idena-go/blockchain/types"
	"github.com/idena-network/idena-go/common"
	"github.com/idena-network/idena-go/core/state"
	"github.com/idena-network/idena-go/crypto"
	"github.com/idena-network/idena-go/vm/embedded"
	"github.com/idena-network/idena-go/vm/wasm/testdata"
	"verif/mc/replica"
	"verif/mc/world"
)

const ampleGas = 2500000

var wasmCode = map[string][]byte{}

func init() {
	load := func(k string, f func() ([]byte, error)) {
		b, err := f()
		if err != nil {
			panic(err)
		}
		wasmCode[k] = b
	}
	load("erc", testdata.Erc20)
	load("inc", testdata.IncFunc)
	load("sum", testdata.SumFunc)
	load("tc", testdata.TestCases)
	load("sft", testdata.SharedFungibleToken)
	bad := append([]byte{}, wasmCode["inc"]...)
	wasmCode["bad"] = bad[:len(bad)/2] // truncated module
	wasmCode["junk"] = []byte{0, 1, 2, 3, 4, 5, 6, 7}
}

var embeddedHash = map[string]common.Hash{
	"tl": embedded.TimeLockContract, "ms": embedded.MultisigContract, "ov": embedded.OracleVotingContract,
	"ol": embedded.OracleLockContract, "rol": embedded.RefundableOracleLockContract,
}

func actor(name string) int {
	for i, n := range world.ActorNames {
		if n == name {
			return i
		}
	}
	return -1
}

// contractsOf lists the contracts with the code of `kind` (address order).
func contractsOf(st *state.StateDB, kind string) []common.Address {
	var want common.Hash
	if h, ok := embeddedHash[kind]; ok {
		want = h
	} else if c, ok := wasmCode[kind]; ok {
		want = crypto.Hash(c)
	} else {
		return nil
	}
	var cs []common.Address
	st.IterateOverAccounts(func(addr common.Address, acc state.Account) {
		if acc.Contract != nil && acc.Contract.CodeHash == want {
			cs = append(cs, addr)
		}
	})
	sort.Slice(cs, func(x, y int) bool { return string(cs[x][:]) < string(cs[y][:]) })
	return cs
}

func u64(v uint64) []byte { return common.ToBytes(v) }
func dnaBytes(n int64) []byte { return replica.Dna(n).Bytes() }

var voteSalt = []byte{7, 7, 7}

func voteHash(v byte) []byte {
	h := crypto.Hash(append(common.ToBytes(v), voteSalt...))
	return h[:]
}

// addrArg resolves an address word: actor name, "@kind", "zero".
func addrArg(b *world.B, w string) []byte {
	if w == "zero" {
		return common.Address{}.Bytes()
	}
	if strings.HasPrefix(w, "@") {
		cs := contractsOf(b.R.App.State, w[1:])
		if len(cs) == 0 {
			return nil
		}
		return cs[0].Bytes()
	}
	if i := actor(w); i >= 0 {
		return world.A(i).Bytes()
	}
	return nil
}

// amountArg: "<n>" DNA, "bal" (balance of the target contract), "bal+1", "0", "wei<n>".
func amountArg(b *world.B, target *common.Address, w string) []byte {
	switch {
	case w == "bal" && target != nil:
		return b.R.App.State.GetBalance(*target).Bytes()
	case w == "bal+1" && target != nil:
		return new(big.Int).Add(b.R.App.State.GetBalance(*target), big.NewInt(1)).Bytes()
	case w == "half" && target != nil:
		return new(big.Int).Quo(b.R.App.State.GetBalance(*target), big.NewInt(2)).Bytes()
	case strings.HasPrefix(w, "wei"):
		n, _ := strconv.ParseInt(w[3:], 10, 64)
		return big.NewInt(n).Bytes()
	}
	n, err := strconv.ParseInt(w, 10, 64)
	if err != nil {
		return nil
	}
	return dnaBytes(n)
}

// argVector builds the argument vector named by the words after the method.
func argVector(b *world.B, kind, method string, target *common.Address, words []string) ([][]byte, bool) {
	if len(words) == 1 {
		switch words[0] {
		case "none":
			return nil, true
		case "junk":
			return [][]byte{{1, 2, 3}}, true
		case "nil":
			return [][]byte{nil, nil, nil}, true
		case "long":
			x := make([]byte, 64)
			for i := range x {
				x[i] = byte(i)
			}
			return [][]byte{x, x, x, x}, true
		}
	}
	now := uint64(b.R.Chain.Head.Time())
	switch kind + "." + method {
	case "tl.deploy":
		switch words[0] {
		case "past":
			return [][]byte{u64(now - 100)}, true
		case "future":
			return [][]byte{u64(now + 100000)}, true
		case "short":
			return [][]byte{{1, 2}}, true
		}
	case "ms.deploy": // "<max>-<min>"
		var mx, mn int
		if _, err := fmt.Sscanf(words[0], "%d-%d", &mx, &mn); err == nil {
			return [][]byte{{byte(mx)}, {byte(mn)}}, true
		}
	case "ov.deploy":
		// presets: fast = committee = network, 4 blocks of secret voting, min payment 1 DNA
		fact := []byte("fact")
		switch words[0] {
		case "fast":
			return [][]byte{fact, u64(now - 10), u64(4), u64(100), {51}, {20}, u64(100), dnaBytes(1), {0}}, true
		case "fastfee": // owner fee 10%, reward fund, refund recipient X2
			return [][]byte{fact, u64(now - 10), u64(4), u64(100), {51}, {20}, u64(100), dnaBytes(1), {10}, dnaBytes(3), world.A(world.X2).Bytes()}, true
		case "later":
			return [][]byte{fact, u64(now + 100000)}, true
		case "old": // pending for more than 30 days: may be terminated by anybody
			return [][]byte{fact, u64(now - 40*86400), u64(4), u64(100), {51}, {20}, u64(100), dnaBytes(1), {0}}, true
		case "minimal":
			return [][]byte{fact, u64(now - 10)}, true
		case "nofact":
			return [][]byte{nil, u64(now)}, true
		}
	case "ol.deploy", "rol.deploy": // "<@ov> <value> <success> <fail>" [+ rol: delay deadline fee]
		if len(words) >= 4 {
			ov := addrArg(b, words[0])
			v, _ := strconv.Atoi(words[1])
			if ov == nil {
				return nil, false
			}
			a := [][]byte{ov, {byte(v)}, addrArg(b, words[2]), addrArg(b, words[3])}
			if kind == "rol" {
				a = append(a, u64(1), u64(now+100000), u64(1000))
				if len(words) > 4 && words[4] == "nodeadline" {
					a = a[:5]
				}
			}
			return a, true
		}
	case "sum.deploy":
		if a := addrArg(b, words[0]); a != nil {
			return [][]byte{a}, true
		}
		return nil, false
	case "sft.deploy":
		return [][]byte{world.A(world.X1).Bytes(), common.Address{0xA}.Bytes()}, true
	case "tl.transfer", "ms.send", "ms.push", "erc.transfer", "sft.transferTo", "erc.approve":
		if len(words) >= 2 {
			d := addrArg(b, words[0])
			a := amountArg(b, target, words[1])
			if d == nil || a == nil {
				return nil, false
			}
			if kind == "erc" || kind == "sft" { // token amounts are plain integers
				n, _ := strconv.ParseInt(words[1], 10, 64)
				a = big.NewInt(n).Bytes()
			}
			return [][]byte{d, a}, true
		}
	case "erc.transferFrom":
		if len(words) >= 3 {
			n, _ := strconv.ParseInt(words[2], 10, 64)
			return [][]byte{addrArg(b, words[0]), addrArg(b, words[1]), big.NewInt(n).Bytes()}, true
		}
	case "ms.add":
		if d := addrArg(b, words[0]); d != nil {
			return [][]byte{d}, true
		}
	case "ov.sendVoteProof": // "<vote>"
		v, _ := strconv.Atoi(words[0])
		return [][]byte{voteHash(byte(v))}, true
	case "ov.sendVote": // "<vote>" [badsalt]
		v, _ := strconv.Atoi(words[0])
		if len(words) > 1 {
			return [][]byte{{byte(v)}, {9, 9}}, true
		}
		return [][]byte{{byte(v)}, voteSalt}, true
	case "sum.invoke":
		if len(words) >= 2 {
			x, _ := strconv.Atoi(words[0])
			y, _ := strconv.Atoi(words[1])
			return [][]byte{u64(uint64(x)), u64(uint64(y))}, true
		}
	case "tc.test": // "<case> <codekind>"
		n, _ := strconv.Atoi(words[0])
		a := [][]byte{common.ToBytes(uint32(n))}
		if len(words) > 1 {
			a = append(a, wasmCode[words[1]])
		}
		return a, true
	}
	if method == "term" || method == "terminate" {
		if d := addrArg(b, words[0]); d != nil {
			return [][]byte{d}, true
		}
	}
	// generic: every word is an address or an amount
	var out [][]byte
	for _, w := range words {
		if a := addrArg(b, w); a != nil {
			out = append(out, a)
		} else if a := amountArg(b, target, w); a != nil {
			out = append(out, a)
		} else {
			out = append(out, []byte(w))
		}
	}
	return out, true
}

type builtOp struct {
	tx      *types.Transaction
	kind    string // contract kind
	verb    string // deploy call term send
	method  string
	gas     int64 // execution gas bought by MaxFee (beyond the tx fee); -1 for non contract txs
	signer  int
	target  *common.Address
	spec    world.Spec
	feeRate *big.Int
}

// buildOp builds the transaction of an operation against b's committed state (nil = not applicable).
func buildOp(b *world.B, op string, gasOverride int64) *builtOp {
	f := strings.Fields(op)
	var words []string
	pay, gas, stakeSel := int64(0), int64(ampleGas), "min"
	for _, w := range f {
		switch {
		case strings.HasPrefix(w, "pay="):
			pay, _ = strconv.ParseInt(w[4:], 10, 64)
		case strings.HasPrefix(w, "gas="):
			gas, _ = strconv.ParseInt(w[4:], 10, 64)
		case strings.HasPrefix(w, "stake="):
			stakeSel = w[6:]
		default:
			words = append(words, w)
		}
	}
	if gasOverride >= 0 {
		gas = gasOverride
	}
	if len(words) < 3 {
		return nil
	}
	signer := actor(words[0])
	if signer < 0 {
		return nil
	}
	st := b.R.App.State
	feeRate := st.FeePerGas()
	o := &builtOp{verb: words[1], signer: signer, gas: gas, feeRate: feeRate}
	sp := world.Spec{From: signer}
	if pay > 0 {
		sp.Amount = replica.Dna(pay)
	}
	switch words[1] {
	case "deploy":
		kind := words[2]
		o.kind, o.method = kind, "deploy"
		args, ok := argVector(b, kind, "deploy", nil, words[3:])
		if !ok {
			return nil
		}
		sp.Type = types.DeployContractTx
		if h, emb := embeddedHash[kind]; emb {
			p, _ := attachments.CreateDeployContractAttachment(h, nil, nil, args...).ToBytes()
			sp.Payload = p
			min := new(big.Int).Mul(feeRate, big.NewInt(3000000))
			switch stakeSel {
			case "low":
				min.Sub(min, big.NewInt(1))
			case "high":
				min.Add(min, replica.Dna(3))
			}
			sp.Amount = min
		} else {
			code, ok := wasmCode[kind]
			if !ok {
				return nil
			}
			p, _ := attachments.CreateDeployContractAttachment(common.Hash{}, code, []byte{byte(len(contractsOf(st, kind)))}, args...).ToBytes()
			sp.Payload = p
		}
	case "call", "term":
		if !strings.HasPrefix(words[2], "@") || len(words) < 4 {
			return nil
		}
		kind := words[2][1:]
		var target common.Address
		if kind == "none" { // a plain account as destination
			target = world.A(world.X2)
		} else {
			cs := contractsOf(st, kind)
			if len(cs) == 0 {
				return nil
			}
			target = cs[0]
		}
		o.kind, o.target = kind, &target
		sp.To = &target
		if words[1] == "call" {
			o.method = words[3]
			args, ok := argVector(b, kind, words[3], &target, words[4:])
			if len(words) == 4 {
				args, ok = nil, true
			}
			if !ok {
				return nil
			}
			sp.Type = types.CallContractTx
			sp.Payload = world.CallPayload(words[3], args...)
		} else {
			o.method = "terminate"
			args, ok := argVector(b, kind, "term", &target, words[3:])
			if !ok {
				return nil
			}
			sp.Type = types.TerminateContractTx
			sp.Payload = world.TerminatePayload(args...)
		}
	case "send":
		if !strings.HasPrefix(words[2], "@") || len(words) < 4 {
			return nil
		}
		cs := contractsOf(st, words[2][1:])
		if len(cs) == 0 {
			return nil
		}
		n, _ := strconv.ParseInt(words[3], 10, 64)
		sp.Type, sp.To, sp.Amount = types.SendTx, &cs[0], replica.Dna(n)
		o.kind, o.target, o.gas = words[2][1:], &cs[0], -1
		sp.MaxFee = replica.Dna(50)
		o.spec = sp
		o.tx = b.Tx(sp)
		return o
	default:
		return nil
	}
	// MaxFee = exact tx fee on this state + (gas + 0.6) x fee rate (fixed point over the encoded size)
	sp.MaxFee = replica.Dna(1)
	for i := 0; i < 3; i++ {
		probe := signOnly(b, sp)
		txFee := fee.CalculateFee(b.R.App.ValidatorsCache.NetworkSize(), feeRate, probe)
		sp.MaxFee = new(big.Int).Add(txFee, new(big.Int).Mul(feeRate, big.NewInt(gas)))
		// ... plus 0.6 of a gas unit: a ceiling that is not aligned to the gas price must still buy the floor only
		sp.MaxFee.Add(sp.MaxFee, new(big.Int).Quo(new(big.Int).Mul(feeRate, big.NewInt(3)), big.NewInt(5)))
	}
	o.spec = sp
	o.tx = b.Tx(sp)
	return o
}

// signOnly builds the tx without consuming a nonce of the builder.
func signOnly(b *world.B, sp world.Spec) *types.Transaction {
	st := b.R.App.State
	a := world.A(sp.From)
	n := st.GetNonce(a)
	if st.GetEpoch(a) < st.Epoch() {
		n = 0
	}
	tx := &types.Transaction{Type: sp.Type, To: sp.To, Amount: sp.Amount, Tips: sp.Tips, Payload: sp.Payload, MaxFee: sp.MaxFee, Epoch: st.Epoch(), AccountNonce: n + 1}
	s, err := types.SignTx(tx, replica.Key(sp.From))
	if err != nil {
		panic(err)
	}
	return s
}

// attachmentsArgs returns the argument vector of a call transaction.
func attachmentsArgs(tx *types.Transaction) [][]byte {
	if a := attachments.ParseCallContractAttachment(tx); a != nil {
		return a.Args
	}
	return nil
}
