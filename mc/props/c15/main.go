// C15 — contract execution is atomic, pays for itself and cannot overspend.
//
// Explicit-state BFS over sequences of deploy / call / terminate / fund operations on every
// embedded contract type and on the bundled WASM contracts, one operation per block on real
// replicas. Every block that carries a contract transaction is judged against the block the
// same proposer builds at the same time without it:
//   failure  => nothing but the sender (fee + gas cost + tips) and the proposer differs
//   always   => charged fee <= MaxFee, gasUsed <= gas bought, gasCost = gasUsed x rate,
//               no value created, nobody but sender / contracts involved loses funds
//   success  => the same transaction with any other sufficient gas limit gives the same state
// and every operation is re-run under a sweep of gas limits (out of gas at every stage).
package main

import (
	"bytes"
	"encoding/hex"
	"fmt"
	"math/big"
	"os"
	"sort"
	"syscall"
	"strings"

	"github.com/idena-network/idena-go/blockchain/fee"
	"github.com/idena-network/idena-go/blockchain/types"
	"github.com/idena-network/idena-go/common"
	"github.com/idena-network/idena-go/core/state"
	"verif/mc/chainmc"
	"verif/mc/monitors"
	"verif/mc/replica"
	"verif/mc/report"
	"verif/mc/world"
)

type scen struct {
	Name   string
	Prefix []string
	Ops    []string
	Depth  int // max path length explored in this scenario (0 = run depth)
}

var warm = []string{"empty", "empty", "empty"}

func pre(ops ...string) []string { return append(append([]string{}, warm...), ops...) }

var ovStarted = pre("X1 deploy ov fast", "X1 send @ov 5100", "X1 call @ov startVoting")
var ovVoted = append(append([]string{}, ovStarted...), "V1 call @ov sendVoteProof 1 pay=1", "V2 call @ov sendVoteProof 1 pay=1", "N1 call @ov sendVoteProof 2 pay=1", "empty")
var ovRevealed = append(append([]string{}, ovVoted...), "V1 call @ov sendVote 1", "V2 call @ov sendVote 1", "N1 call @ov sendVote 2")
var ovFinished = append(append([]string{}, ovRevealed...), "X2 call @ov finishVoting")

func scenarios(thorough bool) []scen {
	tlOps := []string{
		"X1 deploy tl past", "X1 deploy tl future", "X1 deploy tl none", "X1 deploy tl short", "X1 deploy tl past stake=high", "X1 deploy tl past stake=low",
		"X2 send @tl 5",
		"X1 call @tl transfer X2 1", "X1 call @tl transfer Z bal", "X1 call @tl transfer X2 bal+1", "X1 call @tl transfer @tl 1", "X1 call @tl transfer X1 half",
		"X1 call @tl transfer X2 1 pay=2", "X2 call @tl transfer X2 1 pay=1", "X1 call @tl transfer none", "X1 call @tl transfer nil", "X1 call @tl transfer long", "X1 call @tl nope none pay=1",
		"X1 call @tl transfer X2 wei1",
		"X1 term @tl X1", "X2 term @tl X2", "X1 term @tl none", "X1 term @tl Z",
		"X1 call @none transfer X2 1",
	}
	msOps := []string{
		"X1 deploy ms 2-1", "X1 deploy ms 1-1", "X1 deploy ms 0-0", "X1 deploy ms 33-1", "X1 deploy ms 1-2", "X1 deploy ms none",
		"X1 call @ms add X1", "X1 call @ms add X2", "X2 call @ms add X2", "X1 call @ms add none", "X1 send @ms 5",
		"X1 call @ms send Z 1", "X2 call @ms send Z 1", "V1 call @ms send Z 1", "X1 call @ms send Z bal+1", "X1 call @ms send none",
		"X1 call @ms push Z 1", "X2 call @ms push Z 1 pay=1", "X1 call @ms push Z bal+1", "X1 call @ms push Z 2", "X1 call @ms push @ms 1",
		"X1 term @ms X1", "X2 term @ms X2",
	}
	ovOps := []string{
		"X1 deploy ov fast", "X1 deploy ov fastfee", "X1 deploy ov later", "X1 deploy ov old", "X1 deploy ov minimal", "X1 deploy ov nofact", "X1 deploy ov none",
		"X1 send @ov 5100", "X1 send @ov 10",
		"X1 call @ov startVoting", "X2 call @ov startVoting pay=1",
		"V1 call @ov sendVoteProof 1 pay=1", "V2 call @ov sendVoteProof 1 pay=1", "N1 call @ov sendVoteProof 2 pay=1", "V1 call @ov sendVoteProof 1", "X2 call @ov sendVoteProof 1 pay=1", "V1 call @ov sendVoteProof none pay=1",
		"V1 call @ov sendVote 1", "V2 call @ov sendVote 1", "N1 call @ov sendVote 2", "V1 call @ov sendVote 2", "V1 call @ov sendVote 1 badsalt", "X2 call @ov sendVote 1", "V1 call @ov sendVote none",
		"X2 call @ov finishVoting", "X2 call @ov finishVoting pay=1", "X1 call @ov prolongVoting", "X1 call @ov addStake pay=2", "X1 call @ov addStake", "X1 call @ov nope none",
		"X1 term @ov X1", "X2 term @ov X2", "empty",
	}
	olOps := []string{
		"X1 deploy ol @ov 1 X2 Z", "X1 deploy ol @ov 2 X2 Z", "X1 deploy ol none", "X1 deploy ol junk",
		"X1 send @ol 7", "X2 call @ol checkOracleVoting", "X2 call @ol push", "X2 call @ol push pay=1", "X1 term @ol X1", "X2 term @ol X2",
		"X1 deploy rol @ov 1 X2 Z", "X1 deploy rol @ov 2 zero zero", "X1 deploy rol @ov 1 X2 Z nodeadline", "X1 deploy rol none",
		"X2 call @rol deposit pay=30", "V1 call @rol deposit pay=40", "X2 call @rol deposit pay=5", "X2 call @rol deposit", "X2 call @rol push", "X2 call @rol refund", "X1 term @rol X1", "empty",
		"X1 term @ov X1",
	}
	wasmOps := []string{
		"X1 deploy erc none", "X1 deploy erc none pay=3", "X1 deploy bad none", "X1 deploy junk none", "X1 deploy inc none", "X1 deploy sum @inc", "X1 deploy sum X2", "X1 deploy tc none", "X1 deploy sft x",
		"X1 call @erc transfer X2 10", "X2 call @erc transfer X1 10", "X1 call @erc transfer X2 10 pay=2", "X1 call @erc transfer none", "X1 call @erc nope none", "X1 call @erc approve X2 5", "X2 call @erc transferFrom X1 Z 3",
		"X1 call @sum invoke 1 5", "X1 call @sum invoke 1 5 pay=1", "X1 call @sum invoke none", "X1 call @inc inc junk",
		"X1 send @tc 1000", "X1 call @tc test 1 sum", "X1 call @tc test 1 bad", "X1 call @tc test 2 sum", "X1 call @tc test 3 sum", "X1 call @tc test 1 sum pay=5",
		"X1 call @sft transferTo X2 100", "X1 call @sft transferTo X2 100 pay=1",
		"X1 term @erc X1",
	}
	s := []scen{
		{Name: "timelock", Prefix: pre(), Ops: tlOps, Depth: 4},
		{Name: "multisig (fresh)", Prefix: pre(), Ops: msOps, Depth: 3},
		{Name: "multisig (2-1 initialised, funded)", Prefix: pre("X1 deploy ms 2-1", "X1 call @ms add X1", "X1 call @ms add X2", "X1 send @ms 5"), Ops: msOps, Depth: 3},
		{Name: "oracle voting (fresh)", Prefix: pre(), Ops: ovOps, Depth: 3},
		{Name: "oracle voting (started)", Prefix: ovStarted, Ops: ovOps, Depth: 2},
		{Name: "oracle voting (started, secret phase over, nobody voted)", Prefix: append(append([]string{}, ovStarted...), "empty", "empty", "empty", "empty"), Ops: ovOps, Depth: 2},
		{Name: "oracle voting (pending for 40 days, funded)", Prefix: pre("X1 deploy ov old", "X1 send @ov 10"), Ops: ovOps, Depth: 2},
		{Name: "refundable lock (voting finished with 1, lock expects 3, no addresses, two deposits)", Prefix: append(append([]string{}, ovFinished...), "X1 deploy rol @ov 3 zero zero", "X2 call @rol deposit pay=30", "V1 call @rol deposit pay=40"), Ops: olOps, Depth: 3},
		{Name: "oracle voting (3 proofs, secret phase over)", Prefix: ovVoted, Ops: ovOps, Depth: 2},
		{Name: "oracle voting (all revealed)", Prefix: ovRevealed, Ops: ovOps, Depth: 2},
		{Name: "oracle voting with owner fee (all revealed)", Prefix: pre("X1 deploy ov fastfee", "X1 send @ov 5100", "X1 call @ov startVoting", "V1 call @ov sendVoteProof 1 pay=1", "V2 call @ov sendVoteProof 1 pay=2", "empty", "empty", "V1 call @ov sendVote 1", "V2 call @ov sendVote 1"), Ops: ovOps, Depth: 2},
		{Name: "oracle locks (voting finished)", Prefix: ovFinished, Ops: olOps, Depth: 3},
		{Name: "oracle locks (voting running)", Prefix: ovStarted, Ops: olOps, Depth: 3},
		{Name: "wasm (fresh)", Prefix: pre(), Ops: wasmOps, Depth: 2},
		{Name: "wasm (erc20, inc+sum, test-cases funded, token wallet deployed)", Prefix: pre("X1 deploy erc none", "X1 deploy inc none", "X1 deploy sum @inc", "X1 deploy tc none", "X1 send @tc 1000", "X1 deploy sft x"), Ops: wasmOps, Depth: 2},
	}
	if thorough {
		for i := range s {
			s[i].Depth++
		}
	}
	return s
}

func opts() replica.Opts {
	o := world.GenesisG2()
	o.Debug = true
	for _, k := range []int{world.X1, world.X2, world.V1, world.V2, world.N1} {
		a := o.Alloc[world.A(k)]
		a.Balance = replica.Dna(400000)
		o.Alloc[world.A(k)] = a
	}
	return o
}

// ---------------------------------------------------------------- state projection

type proj map[string]string

// project lists everything a contract transaction may touch: every account (balance, contract
// record, code presence), every contract store entry, every identity's stake.
func project(r *replica.Replica) proj {
	p := proj{}
	st := r.App.State
	st.IterateOverAccounts(func(addr common.Address, acc state.Account) {
		c := "-"
		if acc.Contract != nil {
			c = fmt.Sprintf("code=%x stake=%v codelen=%d", acc.Contract.CodeHash[:4], acc.Contract.Stake, len(st.GetContractCode(addr)))
		}
		p["acc:"+addr.Hex()] = fmt.Sprintf("bal=%v nonce=%d epoch=%d %s", acc.Balance, acc.Nonce, acc.Epoch, c)
	})
	st.IterateContractValues(func(key []byte, value []byte) bool {
		p["store:"+hex.EncodeToString(key)] = hex.EncodeToString(value)
		return false
	})
	st.IterateOverIdentities(func(addr common.Address, id state.Identity) {
		p["id:"+addr.Hex()] = fmt.Sprintf("stake=%v state=%d", id.Stake, id.State)
	})
	return p
}

func (p proj) diff(q proj) []string {
	var d []string
	for k, v := range p {
		if q[k] != v {
			d = append(d, k)
		}
	}
	for k := range q {
		if _, ok := p[k]; !ok {
			d = append(d, k)
		}
	}
	sort.Strings(d)
	return d
}

// ---------------------------------------------------------------- one operation = one block

type result struct {
	r        *replica.Replica
	op       *builtOp
	admitErr error
	included bool
	receipt  *types.TxReceipt
	block    *types.Block
}

// runOp opens a replica on img, offers op (with a gas override if >= 0) and inserts the block.
func runOp(img replica.Image, now int64, op string, gas int64) (*result, string) {
	A, err := world.OpenAs(opts(), img, now, world.G)
	if err != nil {
		return nil, "open: " + err.Error()
	}
	res := &result{r: A}
	b := world.NewB(A)
	if !strings.HasPrefix(op, "empty") {
		res.op = buildOp(b, op, gas)
		if res.op == nil {
			return nil, ""
		}
		res.admitErr = world.Submit(A, []*types.Transaction{res.op.tx})[0]
	}
	res.block = A.Propose(now)
	if res.op != nil {
		for _, tx := range res.block.Body.Transactions {
			if tx.Hash() == res.op.tx.Hash() {
				res.included = true
			}
		}
	}
	if err := A.Add(res.block); err != nil {
		return nil, "proposer rejects own block: " + err.Error()
	}
	if res.included {
		res.receipt = A.Chain.GetReceipt(res.op.tx.Hash())
	}
	return res, ""
}

type model struct {
	sc   []scen
	base map[int]*chainmc.State
	thorough bool
}

func (m *model) Scenarios() []string {
	var n []string
	for _, s := range m.sc {
		n = append(n, s.Name)
	}
	return n
}
func (m *model) Actions(scn int) []string              { return m.sc[scn].Ops }
func (m *model) Expandable(scn int, a int) bool        { return true }
func (m *model) Key(scn int, st *chainmc.State) string { return st.Aux["key"] }

func nextTime(now int64, r *replica.Replica) int64 {
	t := now + 20
	if h := r.Chain.Head.Time() + 20; h > t {
		t = h
	}
	return t
}

func (m *model) Init(scn int) *chainmc.State {
	if s, ok := m.base[scn]; ok {
		return s
	}
	A, err := world.OpenAs(opts(), nil, world.T0, world.G)
	if err != nil {
		panic(err)
	}
	img, now := replica.Snapshot(A.DB), int64(world.T0)
	for i, op := range m.sc[scn].Prefix {
		now += 20
		res, e := runOp(img, now, op, -1)
		if res == nil {
			panic(fmt.Sprintf("scenario %q: prefix op %d %q: not applicable %s", m.sc[scn].Name, i, op, e))
		}
		if res.op != nil && res.op.gas >= 0 && (res.receipt == nil || !res.receipt.Success) {
			msg := "not included"
			if res.receipt != nil {
				msg = fmt.Sprint(res.receipt.Error)
			} else if res.admitErr != nil {
				msg = res.admitErr.Error()
			}
			panic(fmt.Sprintf("scenario %q: prefix op %d %q failed: %s", m.sc[scn].Name, i, op, msg))
		}
		if res.op != nil && res.op.gas < 0 && !res.included {
			panic(fmt.Sprintf("scenario %q: prefix op %d %q not included: %v", m.sc[scn].Name, i, op, res.admitErr))
		}
		img = replica.Snapshot(res.r.DB)
		now = res.block.Header.Time()
	}
	B, _ := world.OpenAs(opts(), img, now, world.G)
	s := &chainmc.State{Img: img, Now: now, Aux: map[string]string{"key": world.StateKey(B, 0)}}
	m.base[scn] = s
	return s
}

func (m *model) Step(scn int, st *chainmc.State, a int, c *chainmc.Ctx) *chainmc.State {
	if d := m.sc[scn].Depth; d > 0 && len(c.Path) >= d {
		return nil
	}
	op := m.sc[scn].Ops[a]
	P, err := world.OpenAs(opts(), st.Img, st.Now, world.G)
	if err != nil {
		c.Violation("restart-failed", err.Error(), nil)
		return nil
	}
	now := nextTime(st.Now, P)
	if strings.HasPrefix(op, "empty") {
		res, e := runOp(st.Img, now, op, -1)
		if res == nil {
			c.Violation("empty-block-failed", e, nil)
			return nil
		}
		return &chainmc.State{Img: replica.Snapshot(res.r.DB), Now: now, Aux: map[string]string{"key": world.StateKey(res.r, 0)}}
	}
	res, e := runOp(st.Img, now, op, -1)
	if res == nil {
		if e != "" {
			c.Violation("block-failed", e+" op="+op, nil)
		}
		return nil
	}
	if !res.included {
		if c.Check {
			cls := "not-admitted"
			if res.admitErr != nil {
				cls += ":" + chainpropErr(res.admitErr)
			}
			c.Outcome(op2class(res.op) + " " + cls)
			c.Count("txs_refused_by_validation", 1)
		}
		return nil
	}
	if c.Check {
		m.judge(st, now, op, res, c)
	}
	nx := &chainmc.State{Img: replica.Snapshot(res.r.DB), Now: now, Aux: map[string]string{"key": world.StateKey(res.r, 0)}}
	if d := m.sc[scn].Depth; d > 0 && len(c.Path)+1 >= d {
		nx.Aux["leaf"] = "1" // the scenario's depth bound: not expanded further
	}
	return nx
}

func chainpropErr(e error) string {
	s := e.Error()
	if i := strings.Index(s, ":"); i > 0 {
		s = s[:i]
	}
	return s
}

func op2class(o *builtOp) string { return o.kind + "." + o.method }

// ---------------------------------------------------------------- oracle

func z(x *big.Int) *big.Int {
	if x == nil {
		return new(big.Int)
	}
	return x
}

// judge checks the block carrying op against the tx-less block, then sweeps gas limits.
func (m *model) judge(st *chainmc.State, now int64, op string, res *result, c *chainmc.Ctx) {
	if res.op.gas < 0 {
		return // plain transfer to a contract address: not a contract execution
	}
	base, e := runOp(st.Img, now, "empty", -1)
	if base == nil {
		c.Violation("empty-block-failed", e, nil)
		return
	}
	p0 := project(base.r)
	l0 := monitors.ReadLedger(base.r)
	ok := m.judgeOne(op, res, p0, l0, c, "")
	if !ok || res.receipt == nil {
		return
	}
	c.Count("contract_blocks_judged", 1)
	cls := "failed"
	if res.receipt.Success {
		cls = "ok"
	}
	errc := ""
	if res.receipt.Error != nil {
		errc = " (" + short(res.receipt.Error.Error(), 40) + ")"
	}
	c.Outcome(fmt.Sprintf("%s %s%s", op2class(res.op), cls, errc))
	// gas sweep: the same operation under other limits (quick tier: for the first two operations after each scenario's prefix)
	if !m.thorough && len(c.Path) > 1 {
		return
	}
	used := int64(res.receipt.GasUsed)
	var levels []int64
	add := func(g int64) {
		if g < 0 {
			return
		}
		for _, x := range levels {
			if x == g {
				return
			}
		}
		levels = append(levels, g)
	}
	for _, g := range []int64{0, 1, 10, used / 8, used / 4, used / 2, used * 3 / 4, used - 200, used - 100, used - 50, used - 20, used - 10, used - 5, used - 1, used, used + 1, used + 1000} {
		add(g)
	}
	if m.thorough {
		step := int64(5)
		if used > 4000 {
			step = used / 400
		}
		for g := int64(0); g <= used; g += step {
			add(g)
		}
	}
	// limits above the gas used: cross-contract calls reserve gas for callee and callback up front,
	// so the smallest sufficient limit may lie above the gas finally used
	for _, g := range []int64{used + 10, used + 100, used * 2, used*2 + 5000, used*4 + 20000, used*8 + 100000} {
		add(g)
	}
	sort.Slice(levels, func(i, j int) bool { return levels[i] < levels[j] })
	pAmple := project(res.r)
	// the follower of the pair blocks: an embedded deployment by a signer that is not involved
	var follower *builtOp
	var pF proj
	{
		F, err := world.OpenAs(opts(), st.Img, now, world.G)
		if err == nil {
			if fo := buildOp(world.NewB(F), followerOp, -1); fo != nil && fo.signer != res.op.signer {
				blk := F.Chain.VerifProposeBlockWithTxs([]byte{}, []*types.Transaction{fo.tx}).Block
				if len(blk.Body.Transactions) == 1 && F.Add(blk) == nil {
					if rc := F.Chain.GetReceipt(fo.tx.Hash()); rc != nil && rc.Success {
						follower, pF = fo, project(F)
					}
				}
			}
		}
	}
	firstOK := int64(-1)
	for _, g := range levels {
		r2, e := runOp(st.Img, now, op, g)
		if r2 == nil {
			if e != "" {
				c.Violation("block-failed", e+" op="+op+fmt.Sprint(" gas=", g), nil)
				return
			}
			continue
		}
		c.Count("gas_sweep_runs", 1)
		if !r2.included {
			c.Count("gas_sweep_not_admitted", 1)
			continue
		}
		if !m.judgeOne(op, r2, p0, l0, c, fmt.Sprintf(" gas=%d", g)) {
			return
		}
		if r2.receipt == nil {
			continue
		}
		// the verdict is monotone in the limit
		if r2.receipt.Success && firstOK < 0 {
			firstOK = g
			if !res.receipt.Success {
				c.Violation("gas-dependent-verdict:"+op2class(res.op), fmt.Sprintf("%s: succeeds with %d gas but fails under the ample limit (%v)", op, g, res.receipt.Error), nil)
				return
			}
		}
		if !r2.receipt.Success && firstOK >= 0 {
			c.Violation("gas-verdict-not-monotone:"+op2class(res.op), fmt.Sprintf("%s: succeeds with %d gas but fails with %d (%v)", op, firstOK, g, r2.receipt.Error), nil)
			return
		}
		// embedded contracts reserve nothing: exactly the gas used must suffice (WASM gas is metered in
		// 1/100 units and reported rounded down, and promises reserve gas: no such rule there)
		if _, emb := embeddedHash[res.op.kind]; emb && res.receipt.Success && !r2.receipt.Success && g >= used {
			c.Violation("gas-dependent-verdict:"+op2class(res.op), fmt.Sprintf("%s: fails with %d gas (%v) although it uses %d under an ample limit", op, g, r2.receipt.Error, used), nil)
			return
		}
		if r2.receipt.Success && res.receipt.Success {
			// a sufficient limit must give the ample limit's state. The two transactions differ in
			// the encoding of MaxFee, hence by a few bytes of size-based fee: the sender and the
			// proposer are compared through "loss beyond the charged fee" instead of byte equality.
			p2 := project(r2.r)
			sender, coinbase := world.A(res.op.signer), world.A(world.G)
			var d []string
			for _, k := range p2.diff(pAmple) {
				if k != "acc:"+sender.Hex() && k != "acc:"+coinbase.Hex() && k != "id:"+coinbase.Hex() {
					d = append(d, k)
				}
			}
			if len(d) > 0 {
				c.Violation("gas-dependent-result:"+op2class(res.op), fmt.Sprintf("%s: succeeds with %d gas and with an ample limit but the states differ at %v", op, g, head(d, 4)), nil)
				return
			}
			if r2.receipt.GasUsed != res.receipt.GasUsed {
				c.Violation("gas-dependent-usage:"+op2class(res.op), fmt.Sprintf("%s: uses %d gas under limit %d and %d under an ample limit", op, r2.receipt.GasUsed, g, res.receipt.GasUsed), nil)
				return
			}
			if x, y := beyondFee(r2, l0), beyondFee(res, l0); x.Cmp(y) != 0 {
				c.Violation("gas-dependent-sender:"+op2class(res.op), fmt.Sprintf("%s: beyond fee and gas the sender loses %v under limit %d and %v under an ample limit", op, x, g, y), nil)
				return
			}
			c.Count("sufficient_gas_state_equal", 1)
		}
		if !r2.receipt.Success && res.receipt.Success {
			c.Count("out_of_gas_failures_checked", 1)
		}
		// a failed execution must not leak into a later transaction of the same block: the block
		// {this failing tx, an unrelated successful contract tx} is compared with the block {that tx}
		if !r2.receipt.Success && g > 0 && follower != nil {
			if !m.pairBlock(st, now, op, g, r2, follower, pF, c) {
				return
			}
		}
	}
}

const followerOp = "V2 deploy ms 1-1"

// pairBlock: block {failing tx (op under gas limit g), follower} vs block {follower}.
func (m *model) pairBlock(st *chainmc.State, now int64, op string, g int64, failed *result, follower *builtOp, pF proj, c *chainmc.Ctx) bool {
	P, err := world.OpenAs(opts(), st.Img, now, world.G)
	if err != nil {
		return true
	}
	replica.SetTime(now)
	blk := P.Chain.VerifProposeBlockWithTxs([]byte{}, []*types.Transaction{failed.op.tx, follower.tx}).Block
	if len(blk.Body.Transactions) != 2 {
		c.Count("pair_blocks_not_buildable", 1)
		return true
	}
	if err := P.Add(blk); err != nil {
		c.Violation("pair-block-rejected:"+op2class(failed.op), fmt.Sprintf("%s gas=%d followed by %s: the proposer rejects its own block: %v", op, g, followerOp, err), nil)
		return false
	}
	r1, r2 := P.Chain.GetReceipt(failed.op.tx.Hash()), P.Chain.GetReceipt(follower.tx.Hash())
	c.Count("pair_blocks_judged", 1)
	if r1 == nil || r2 == nil || r1.Success || !r2.Success {
		c.Violation("pair-block-verdicts:"+op2class(failed.op), fmt.Sprintf("%s gas=%d followed by %s: verdicts changed in company (first success=%v, follower success=%v)", op, g, followerOp, r1 != nil && r1.Success, r2 != nil && r2.Success), nil)
		return false
	}
	sender, coinbase := world.A(failed.op.signer), world.A(world.G)
	for _, k := range project(P).diff(pF) {
		if k == "acc:"+sender.Hex() || k == "acc:"+coinbase.Hex() || k == "id:"+coinbase.Hex() {
			continue
		}
		c.Violation("failed-tx-leaks-into-next:"+op2class(failed.op), fmt.Sprintf("%s gas=%d failed (%v); followed by %s in the same block, %s differs from the block with the follower alone", op, g, r1.Error, followerOp, k), nil)
		return false
	}
	return true
}

// beyondFee: what the sender lost in addition to the charged fee, gas cost and tips.
func beyondFee(res *result, l0 monitors.Ledger) *big.Int {
	sender := world.A(res.op.signer)
	l1 := monitors.ReadLedger(res.r)
	loss := new(big.Int).Sub(l0[sender].Funds(), l1[sender].Funds())
	txFee := fee.CalculateFee(res.r.App.ValidatorsCache.NetworkSize(), res.op.feeRate, res.op.tx)
	loss.Sub(loss, txFee)
	loss.Sub(loss, new(big.Int).Mul(res.op.feeRate, new(big.Int).SetUint64(res.receipt.GasUsed)))
	return loss.Sub(loss, res.op.tx.TipsOrZero())
}

func short(s string, n int) string {
	if len(s) > n {
		return s[:n]
	}
	return s
}
func head(s []string, n int) []string {
	if len(s) > n {
		return s[:n]
	}
	return s
}

// judgeOne applies the per-block rules. p0/l0: projection and ledger of the tx-less block.
func (m *model) judgeOne(op string, res *result, p0 proj, l0 monitors.Ledger, c *chainmc.Ctx, tag string) bool {
	o := res.op
	tx := o.tx
	sender := world.A(o.signer)
	coinbase := world.A(world.G)
	rc := res.receipt
	if rc == nil {
		c.Violation("no-receipt:"+op2class(o), "contract transaction included without a receipt: "+op+tag, nil)
		return false
	}
	p1 := project(res.r)
	l1 := monitors.ReadLedger(res.r)
	// fee rules
	txFee := fee.CalculateFee(res.r.App.ValidatorsCache.NetworkSize(), o.feeRate, tx)
	gasBought := new(big.Int).Quo(new(big.Int).Sub(tx.MaxFeeOrZero(), txFee), o.feeRate)
	if new(big.Int).SetUint64(rc.GasUsed).Cmp(gasBought) > 0 {
		c.Violation("gas-over-limit:"+op2class(o), fmt.Sprintf("%s%s: gasUsed %d exceeds the %v gas that MaxFee buys", op, tag, rc.GasUsed, gasBought), nil)
		return false
	}
	wantCost := new(big.Int).Mul(o.feeRate, new(big.Int).SetUint64(rc.GasUsed))
	if z(rc.GasCost).Cmp(wantCost) != 0 {
		c.Violation("gas-cost-mismatch:"+op2class(o), fmt.Sprintf("%s%s: gasCost %v != gasUsed %d x rate %v", op, tag, rc.GasCost, rc.GasUsed, o.feeRate), nil)
		return false
	}
	charged := new(big.Int).Add(txFee, wantCost)
	if charged.Cmp(tx.MaxFeeOrZero()) > 0 {
		c.Violation("fee-over-max:"+op2class(o), fmt.Sprintf("%s%s: fee %v + gas cost %v exceeds MaxFee %v", op, tag, txFee, wantCost, tx.MaxFee), nil)
		return false
	}
	// the sender's own loss: never more than fee + gas + tips + amount
	sLoss := new(big.Int).Sub(l0[sender].Funds(), l1[sender].Funds())
	maxLoss := new(big.Int).Add(charged, new(big.Int).Add(tx.TipsOrZero(), tx.AmountOrZero()))
	if sLoss.Cmp(maxLoss) > 0 {
		c.Violation("sender-overcharged:"+op2class(o), fmt.Sprintf("%s%s: sender lost %v, more than fee+gas+tips+amount = %v", op, tag, sLoss, maxLoss), nil)
		return false
	}
	// no value created
	t0, t1 := l0.Total(), l1.Total()
	if t1.Cmp(t0) > 0 {
		c.Violation("value-created:"+op2class(o), fmt.Sprintf("%s%s: total funds %v with the transaction, %v without (success=%v)", op, tag, t1, t0, rc.Success), nil)
		return false
	}
	if neg := l1.Negative(); neg != "" {
		c.Violation("negative-funds:"+op2class(o), op+tag+": "+neg, nil)
		return false
	}
	// who may lose funds: the sender and contracts (existing before or created by this tx)
	for a, e1 := range l1 {
		e0, ok := l0[a]
		if !ok || a == sender || a == coinbase {
			continue
		}
		if e1.Funds().Cmp(e0.Funds()) < 0 && res.r.App.State.GetCodeHash(a) == nil && e0.CStake == nil {
			c.Violation("bystander-loses:"+op2class(o), fmt.Sprintf("%s%s: %s is neither sender nor contract and lost %v", op, tag, a.Hex(), new(big.Int).Sub(e0.Funds(), e1.Funds())), nil)
			return false
		}
	}
	if !rc.Success {
		// failure leaves no trace except nonce and fee
		for _, k := range p1.diff(p0) {
			if k == "acc:"+sender.Hex() || k == "acc:"+coinbase.Hex() || k == "id:"+coinbase.Hex() {
				continue
			}
			c.Violation("failed-tx-leaves-trace:"+op2class(o), fmt.Sprintf("%s%s failed (%v) but %s differs from the block without it: %q vs %q", op, tag, rc.Error, k, p1[k], p0[k]), nil)
			return false
		}
		want := new(big.Int).Add(charged, tx.TipsOrZero())
		if sLoss.Cmp(want) != 0 && sender != coinbase {
			c.Violation("failed-tx-charge:"+op2class(o), fmt.Sprintf("%s%s failed: sender lost %v, expected fee+gas+tips = %v", op, tag, sLoss, want), nil)
			return false
		}
		if len(rc.Events) > 0 {
			c.Violation("failed-tx-events:"+op2class(o), op+tag+": a failed transaction carries events", nil)
			return false
		}
		if n := res.r.App.State.GetNonce(sender); n != tx.AccountNonce {
			c.Violation("failed-tx-nonce:"+op2class(o), fmt.Sprintf("%s%s failed: sender nonce %d, tx nonce %d", op, tag, n, tx.AccountNonce), nil)
			return false
		}
		c.Count("failures_checked_atomic", 1)
		return true
	}
	// success: operation-specific post-conditions
	return m.post(op, res, p0, p1, l0, l1, c, tag)
}

// post: reference post-conditions of the simple contracts.
func (m *model) post(op string, res *result, p0, p1 proj, l0, l1 monitors.Ledger, c *chainmc.Ctx, tag string) bool {
	o := res.op
	f := strings.Fields(op)
	st := res.r.App.State
	bad := func(key, what string) bool {
		c.Violation(key+":"+op2class(o), op+tag+": "+what, nil)
		return false
	}
	funds := func(l monitors.Ledger, a common.Address) *big.Int {
		if e, ok := l[a]; ok {
			return e.Funds()
		}
		return new(big.Int)
	}
	amount := o.tx.AmountOrZero()
	switch {
	case o.verb == "deploy":
		addr := res.receipt.ContractAddress
		if st.GetCodeHash(addr) == nil {
			return bad("deploy-without-contract", "deployment succeeded but "+addr.Hex()+" is not a contract")
		}
		if _, emb := embeddedHash[o.kind]; emb {
			if z(st.GetContractStake(addr)).Cmp(amount) != 0 {
				return bad("deploy-stake", fmt.Sprintf("contract stake %v != deployed amount %v", st.GetContractStake(addr), amount))
			}
		} else {
			if !bytes.Equal(st.GetContractCode(addr), wasmCode[o.kind]) {
				return bad("deploy-code", "stored code differs from the deployed code")
			}
			if funds(l1, addr).Cmp(amount) != 0 && o.kind != "sft" {
				return bad("deploy-pay-amount", fmt.Sprintf("contract holds %v after a deployment paying %v", funds(l1, addr), amount))
			}
		}
	case o.verb == "term":
		t := *o.target
		if st.GetCodeHash(t) != nil {
			return bad("terminate-keeps-contract", "termination succeeded but the contract record is still there")
		}
		n := 0
		st.IterateContractStore(t, nil, nil, func(k, v []byte) bool { n++; return false })
		if n > 0 && o.kind != "ov" {
			return bad("terminate-keeps-store", fmt.Sprintf("termination succeeded but %d store entries remain", n))
		}
		// half of the stake goes to the stake destination, the other half is burnt
		if e0, ok := l0[t]; ok && e0.CStake != nil {
			half := new(big.Int).Quo(e0.CStake, big.NewInt(2))
			burnt := new(big.Int).Sub(l0.Total(), l1.Total())
			feeBurn := new(big.Int).Sub(e0.CStake, half)
			if burnt.Cmp(feeBurn) < 0 {
				return bad("terminate-burn", fmt.Sprintf("total funds fell by %v, less than the burnt half of the stake %v", burnt, feeBurn))
			}
		}
	case o.kind == "tl" && o.method == "transfer" && len(f) >= 6:
		// exactly `amount argument` moves from the contract to the destination
		t := *o.target
		args := attachmentsArgs(o.tx)
		if len(args) < 2 {
			return true
		}
		var dest common.Address
		dest.SetBytes(args[0])
		amt := new(big.Int).SetBytes(args[1])
		wantC := new(big.Int).Add(funds(l0, t), amount)
		if dest != t {
			wantC.Sub(wantC, amt)
		}
		if funds(l1, t).Cmp(wantC) != 0 {
			return bad("timelock-transfer-contract", fmt.Sprintf("contract holds %v, expected %v", funds(l1, t), wantC))
		}
		if dest != t && dest != world.A(o.signer) && dest != world.A(world.G) {
			if new(big.Int).Sub(funds(l1, dest), funds(l0, dest)).Cmp(amt) != 0 {
				return bad("timelock-transfer-dest", fmt.Sprintf("destination got %v, expected %v", new(big.Int).Sub(funds(l1, dest), funds(l0, dest)), amt))
			}
		}
	case o.kind == "ms" && o.method == "push":
		t := *o.target
		args := attachmentsArgs(o.tx)
		var dest common.Address
		dest.SetBytes(args[0])
		amt := new(big.Int).SetBytes(args[1])
		wantC := new(big.Int).Add(funds(l0, t), amount)
		if dest != t {
			wantC.Sub(wantC, amt)
		}
		if funds(l1, t).Cmp(wantC) != 0 {
			return bad("multisig-push-contract", fmt.Sprintf("contract holds %v, expected %v", funds(l1, t), wantC))
		}
	case o.kind == "sum" && o.method == "invoke":
		args := attachmentsArgs(o.tx)
		if len(args) == 2 && len(args[0]) == 8 && len(args[1]) == 8 {
			got := st.GetContractValue(*o.target, []byte("sum"))
			x, y := leU64(args[0]), leU64(args[1])
			if got != nil && !bytes.Equal(got, common.ToBytes(x+y+1)) { // (nothing is stored when the inc contract is absent)
				return bad("sum-invoke-result", fmt.Sprintf("stored sum %x, expected %d", got, x+y+1))
			}
		}
	case o.kind == "ov" && o.method == "finishVoting":
		// the contract is emptied: everything it held went to voters / owner or was burnt
		if funds(l1, *o.target).Sign() != 0 && z(l1[*o.target].Bal).Sign() != 0 {
			return bad("oracle-finish-balance", fmt.Sprintf("contract still holds a balance of %v after finishVoting", l1[*o.target].Bal))
		}
	}
	// a call's pay amount stays in the contract unless the contract moved it on: covered by conservation;
	// successful non-payable... (no such notion in this VM)
	c.Count("successes_checked", 1)
	return true
}

func quiet(f func()) {
	null, err := os.OpenFile(os.DevNull, os.O_WRONLY, 0)
	if err != nil {
		f()
		return
	}
	saved, _ := syscall.Dup(1)
	syscall.Dup2(int(null.Fd()), 1)
	defer func() {
		syscall.Dup2(saved, 1)
		syscall.Close(saved)
		null.Close()
	}()
	f()
}

func leU64(b []byte) uint64 {
	var v uint64
	for i := 7; i >= 0; i-- {
		v = v<<8 | uint64(b[i])
	}
	return v
}

func main() {
	run := report.New("C15")
	m := &model{sc: scenarios(run.Thorough()), base: map[int]*chainmc.State{}, thorough: run.Thorough()}
	if chainmc.IsWorker() {
		chainmc.WorkerMain(m)
		return
	}
	if run.Replay != "" {
		chainmc.ReplayFile(run, m)
		return
	}
	run.SetBudget(6*60e9, 25*60e9)
	quiet(func() { // the WASM runtime prints its debug log to fd 1 while the prefixes are built
		for i := range m.sc {
			m.Init(i)
		}
	})
	chainmc.Explore(run, m, chainmc.Config{Depth: 5, Chunk: 2})
	run.Set("evaluations", run.Get("contract_blocks_judged")+run.Get("gas_sweep_runs"))
	run.Set("distinct_nontrivial", run.Get("states"))
	run.Finish("model_checking", "BFS over operation sequences (per-scenario depth 2-4, one operation per block) on 12 scenarios covering all 5 embedded contract types through their whole life cycle (incl. a complete oracle voting with 3 voters, owner fee variant, oracle locks bound to a finished / running voting) and the 5 bundled WASM contracts (cross-contract call, sub-deployment, token wallet); each contract block is compared with the tx-less block of the same proposer and time (failure atomicity, fee/gas bounds, conservation, bystanders, reference post-conditions) and re-run under a sweep of gas limits (17 levels; thorough: every 5 gas up to the gas used): insufficient => atomic failure, sufficient => identical state")
}
