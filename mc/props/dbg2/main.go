package main

import (
	"fmt"
	"runtime/debug"

	"github.com/idena-network/idena-go/blockchain/types"
	"verif/mc/chainprop"
	"verif/mc/replica"
	"verif/mc/world"
)

func main() {
	m := &chainprop.Model{Menu: world.Menu()}
	m.Std()
	scn := 2
	m.Acts = append(m.Acts, chainprop.Action{Name: "epoch", Macro: "epoch", Expand: true})
	st := m.Init(scn)
	st = m.Step(scn, st, 0, nil2())
	if st == nil {
		panic("macro disabled")
	}
	fmt.Println("after macro:", st.Aux["key"])
	// variant: restart between ResetTo and the new block
	func() {
		defer func() {
			if p := recover(); p != nil {
				fmt.Printf("reset+restart then E: PANIC %v\n", fmt.Sprint(p)[:80])
			}
		}()
		A, _ := world.Open(m.Opts[scn], st.Img, st.Now)
		head := A.Chain.Head.Height()
		A.Chain.ResetTo(head - 1)
		B, err := world.Open(m.Opts[scn], replica.Snapshot(A.DB), st.Now)
		if err != nil {
			panic(err)
		}
		blk := B.Empty()
		fmt.Printf("reset+restart then E: flags=%d h=%d\n", blk.Header.Flags(), blk.Height())
		fmt.Println("  add:", B.Add(blk), "head", B.Chain.Head.Height())
		fmt.Println("  restart after:", func() error { _, e := world.Open(m.Opts[scn], replica.Snapshot(B.DB), st.Now); return e }())
	}()
	func() {
		defer func() {
			if p := recover(); p != nil {
				fmt.Printf("no-ceremony-object: PANIC %v\n", fmt.Sprint(p)[:60])
			}
		}()
		o := m.Opts[scn]
		o.WithCeremony = false
		A, _ := world.Open(o, st.Img, st.Now)
		// epoch function still needed: borrow from a throw-away full replica on a copy
		X, _ := world.Open(m.Opts[scn], st.Img, st.Now)
		X.Chain.ResetTo(X.Chain.Head.Height() - 1)
		A.Chain.ProvideApplyNewEpochFunc(X.Ceremony.ApplyNewEpoch)
		A.Chain.ResetTo(A.Chain.Head.Height() - 1)
		blk := A.Empty()
		fmt.Printf("no-ceremony-object: add=%v head=%d\n", A.Add(blk), A.Chain.Head.Height())
	}()
	for _, v := range []string{"same-db-new-objects", "copy-db"} {
		func() {
			defer func() {
				if p := recover(); p != nil {
					fmt.Printf("%s: PANIC %v\n", v, fmt.Sprint(p)[:60])
				}
			}()
			A, _ := world.Open(m.Opts[scn], st.Img, st.Now)
			head := A.Chain.Head.Height()
			A.Chain.ResetTo(head - 1)
			o := A.Opts
			var B *replica.Replica
			var err error
			if v == "copy-db" {
				B, err = replica.New(o, replica.Snapshot(A.DB).NewDB())
			} else {
				B, err = replica.New(o, A.DB)
			}
			if err != nil {
				panic(err)
			}
			blk := B.Empty()
			fmt.Printf("%s: add=%v head=%d\n", v, B.Add(blk), B.Chain.Head.Height())
		}()
	}
	for _, restart := range []bool{true, false} {
		for _, kind := range []string{"E", "P"} {
			func() {
				defer func() {
					if p := recover(); p != nil {
						fmt.Printf("restart=%v kind=%s: PANIC %v\n%s\n", restart, kind, fmt.Sprint(p)[:80], debug.Stack())
					}
				}()
				A, err := world.Open(m.Opts[scn], st.Img, st.Now)
				if err != nil {
					panic(err)
				}
				head := A.Chain.Head.Height()
				if !restart {
					// a replica that inserted the epoch block itself: rebuild by resetting first and re-adding
				}
				if _, err := A.Chain.ResetTo(head - 1); err != nil {
					panic(err)
				}
				now := A.Chain.Head.Time() + 21
				var blk *types.Block
				if kind == "E" {
					blk = A.Empty()
				} else {
					r, err := world.Open(m.Opts[scn], replica.Snapshot(A.DB), now)
					if err != nil {
						panic(err)
					}
					if restart {
						A = r
					} else {
						A2, _ := world.OpenAs(m.Opts[scn], replica.Snapshot(A.DB), now, r.Opts.KeyIdx)
						blk = A2.Propose(now)
					}
					if blk == nil {
						blk = A.Propose(now)
					}
				}
				fmt.Printf("restart=%v kind=%s flags=%d height=%d\n", restart, kind, blk.Header.Flags(), blk.Height())
				if err := A.Add(blk); err != nil {
					fmt.Println("  add err:", err)
				} else {
					fmt.Println("  added ok, head", A.Chain.Head.Height())
				}
			}()
		}
	}
}
