package main

import "verif/mc/chainmc"

func nil2() *chainmc.Ctx { return &chainmc.Ctx{} }
