// C20 — push/pull fetches each announced item once, falling back to the next announcer.
//
// Controlled-scheduler DFS (preemption bounded, virtual time) over the real
// DefaultPushTracker + PushPullManager.addPush/loop + DefaultHolder: announcer threads,
// the tracker loop, the manager's forwarding loop, an arrival thread and a recorder.
package main

import (
	"fmt"
	"os"
	"sync"
	"sort"
	"strings"
	"time"

	"github.com/idena-network/idena-go/common"
	"github.com/idena-network/idena-go/common/pushpull"
	"github.com/idena-network/idena-go/protocol"
	"verif/mc/report"
	"verif/mc/sched"
)

const pullDelay = 100 * time.Millisecond
const horizon = 350 * time.Millisecond

type req struct {
	at   time.Duration
	peer string
	hash int
}

type scenario struct {
	Name      string   `json:"name"`
	Announce  [][2]int `json:"announce"` // (peer, hash) per announcer thread, in thread order
	ArriveAt  []int    `json:"arrive_ms"` // per hash: arrival time in ms, -1 = never
	Preheld   []bool   `json:"preheld"`   // per hash: already held before any announcement
	LateAnn   int      `json:"late_announcer_ms"` // >0: the last announcer announces at this time instead of 0
	AnnAt     []int    `json:"announce_at_ms,omitempty"` // per announcer thread: announcement time (staggered scenarios)
	Pool      bool     `json:"pool_like_holder,omitempty"` // holder like the tx pool: 1 parallel pull, arrival does not call RemovePull
	HorizonMs int      `json:"horizon_ms,omitempty"`     // virtual-time horizon (default 3.5 pull delays)
	FullUntil int      `json:"queue_full_until_ms,omitempty"` // >0: the manager's outgoing pull queue is full from the start and drained at this time
}

func (sc scenario) cap() int {
	if sc.Pool {
		return 1
	}
	return 3
}

// poolHolder behaves like core/mempool.TxPool as a push/pull holder: one parallel pull, Add is
// a no-op, and storing an item (it arrives as an ordinary NewTx message) does not touch the tracker.
type poolHolder struct {
	mu      sync.Mutex
	has     map[common.Hash128]bool
	tracker pushpull.PendingPushTracker
}

func (h *poolHolder) Add(common.Hash128, interface{}, common.ShardId, bool) {}
func (h *poolHolder) Has(x common.Hash128) bool {
	h.mu.Lock()
	defer h.mu.Unlock()
	return h.has[x]
}
func (h *poolHolder) Get(x common.Hash128) (interface{}, common.ShardId, bool, bool) {
	return "entry", common.MultiShard, false, h.Has(x)
}
func (h *poolHolder) MaxParallelPulls() uint32                   { return 1 }
func (h *poolHolder) SupportPendingRequests() bool               { return true }
func (h *poolHolder) PushTracker() pushpull.PendingPushTracker  { return h.tracker }
func (h *poolHolder) store(x common.Hash128) {
	h.mu.Lock()
	h.has[x] = true
	h.mu.Unlock()
}

func (sc scenario) horizon() time.Duration {
	if sc.HorizonMs > 0 {
		return time.Duration(sc.HorizonMs) * time.Millisecond
	}
	return horizon
}

var hmu sync.Mutex // protects the harness' own records in the free-running race pass

type obs struct {
	reqs      []req
	pending   int
	active    int
	held      []bool
	announced map[int][]string // hash -> peers that announced (call completed)
}

var start = time.Unix(1700000000, 0)

func hashOf(i int) common.Hash128 { return common.Hash128{byte(i + 1), 0xaa} }

func runScenario(sc scenario, prefix []int) (*sched.Exec, *obs) {
	o := &obs{announced: map[int][]string{}, held: make([]bool, len(sc.ArriveAt))}
	var tracker *pushpull.DefaultPushTracker
	var holder pushpull.Holder
	body := scenarioBody(sc, o, &tracker, &holder)
	x := sched.Run(prefix, start, sc.horizon(), 200000, body)
	if tracker != nil {
		o.pending, o.active = tracker.VerifSizes()
		for h := range sc.ArriveAt {
			o.held[h] = holder.Has(hashOf(h))
		}
	}
	return x, o
}

func scenarioBody(sc scenario, o *obs, trackerP **pushpull.DefaultPushTracker, holderP *pushpull.Holder) func(e *sched.Exec) {
	return func(e *sched.Exec) {
		var tracker *pushpull.DefaultPushTracker
		var holder pushpull.Holder
		defer func() { *trackerP, *holderP = tracker, holder }()
		tracker = pushpull.NewDefaultPushTracker(pullDelay)
		var ph *poolHolder
		if sc.Pool {
			ph = &poolHolder{has: map[common.Hash128]bool{}, tracker: tracker}
			holder = ph
			tracker.SetHolder(ph) // as NewTxPool / TxPool.Initialize do
			tracker.Run()
		} else {
			holder = pushpull.NewDefaultHolder(3, tracker) // starts the real tracker loop and gc as logical threads
		}
		m := protocol.VerifNewPPM(holder)
		for h, pre := range sc.Preheld {
			if pre && ph != nil {
				ph.store(hashOf(h))
			} else if pre {
				holder.Add(hashOf(h), "entry", common.MultiShard, false)
			}
		}
		e.Go("manager-loop", func() { m.VerifLoop(holder) })
		if sc.FullUntil > 0 {
			m.VerifFillRequests()
		}
		e.Go("recorder", func() {
			if sc.FullUntil > 0 {
				e.Sleep(time.Duration(sc.FullUntil) * time.Millisecond)
				m.VerifDrainRequests()
			}
			for {
				p, h := m.VerifRecvRequest()
				hi := int(h[0]) - 1
				hmu.Lock()
				o.reqs = append(o.reqs, req{e.Now().Sub(start), p, hi})
				hmu.Unlock()
			}
		})
		for i, a := range sc.Announce {
			i, a := i, a
			e.Go(fmt.Sprintf("announcer-%d", i), func() {
				if sc.LateAnn > 0 && i == len(sc.Announce)-1 {
					e.Sleep(time.Duration(sc.LateAnn) * time.Millisecond)
				}
				if i < len(sc.AnnAt) && sc.AnnAt[i] > 0 {
					e.Sleep(time.Duration(sc.AnnAt[i]) * time.Millisecond)
				}
				m.VerifAddPush(fmt.Sprintf("P%d", a[0]), hashOf(a[1]))
				hmu.Lock()
				o.announced[a[1]] = append(o.announced[a[1]], fmt.Sprintf("P%d", a[0]))
				hmu.Unlock()
			})
		}
		for h, at := range sc.ArriveAt {
			h, at := h, at
			if at < 0 {
				continue
			}
			e.Go(fmt.Sprintf("arrival-%d", h), func() {
				e.Sleep(time.Duration(at) * time.Millisecond)
				if ph != nil {
					ph.store(hashOf(h))
				} else {
					holder.Add(hashOf(h), "entry", common.MultiShard, false)
				}
			})
		}
	}
}

// oracle from the request trace
func judge(sc scenario, x *sched.Exec, o *obs) (string, string) {
	if x.Panic != nil {
		return "panic", fmt.Sprint(x.Panic)
	}
	if x.Deadlock != "" {
		return "deadlock", "no enabled thread and nothing sleeping; blocked: " + x.Deadlock
	}
	byHash := map[int][]req{}
	for _, r := range o.reqs {
		byHash[r.hash] = append(byHash[r.hash], r)
	}
	if sc.FullUntil > 0 {
		// the announcements made while the queue was full were throttled (by design no request is sent for them);
		// the item never arrives: every announcer that announced after the queue was drained could still serve it
		// and must be asked within the horizon, one pull delay apart, and nobody else
		for h := range sc.ArriveAt {
			late := map[string]bool{}
			all := map[string]bool{}
			for i, a := range sc.Announce {
				if a[1] != h {
					continue
				}
				all[fmt.Sprintf("P%d", a[0])] = true
				if sc.AnnAt[i] > sc.FullUntil {
					late[fmt.Sprintf("P%d", a[0])] = true
				}
			}
			asked := map[string]bool{}
			for _, r := range byHash[h] {
				if !all[r.peer] {
					return "request-to-non-announcer", fmt.Sprintf("hash %d requested from %s which never announced it", h, r.peer)
				}
				asked[r.peer] = true
			}
			for p := range late {
				if !asked[p] {
					return "announcer-lost-after-throttled-pull", fmt.Sprintf("hash %d never arrived; its first announcements were throttled (pull queue full until %dms); %s announced it afterwards and was never asked within %v (requests: %v)", h, sc.FullUntil, p, sc.horizon(), byHash[h])
				}
			}
		}
		return "", ""
	}
	for h := range sc.ArriveAt {
		rs := byHash[h]
		sort.SliceStable(rs, func(i, j int) bool { return rs[i].at < rs[j].at })
		arrive := time.Duration(-1)
		if sc.ArriveAt[h] >= 0 {
			arrive = time.Duration(sc.ArriveAt[h]) * time.Millisecond
		}
		announcers := map[string]bool{}
		annCount := map[string]int{}
		firstAnnounce := time.Duration(0)
		n := 0
		staggered := len(sc.AnnAt) > 0
		first := true
		for i, a := range sc.Announce {
			if a[1] == h {
				announcers[fmt.Sprintf("P%d", a[0])] = true
				annCount[fmt.Sprintf("P%d", a[0])]++
				n++
				if staggered && i < len(sc.AnnAt) {
					at := time.Duration(sc.AnnAt[i]) * time.Millisecond
					if first || at < firstAnnounce {
						firstAnnounce = at
					}
					first = false
				}
			}
		}
		if n == 0 {
			continue
		}
		if sc.Preheld[h] {
			if len(rs) > 0 {
				return "request-for-held-item", fmt.Sprintf("hash %d is held before any announcement but %d pull requests were issued", h, len(rs))
			}
			continue
		}
		if len(rs) == 0 {
			if arrive == 0 {
				continue // arrived at the very moment of the announcements
			}
			return "no-request-at-all", fmt.Sprintf("hash %d was announced by %d peers and never requested", h, n)
		}
		if rs[0].at != firstAnnounce && !(sc.LateAnn > 0 && n == 1) {
			return "first-announcer-not-asked-immediately", fmt.Sprintf("hash %d: first request at %v, first announcement at %v", h, rs[0].at, firstAnnounce)
		}
		asked := map[string]int{}
		for i, r := range rs {
			if !announcers[r.peer] {
				return "request-to-non-announcer", fmt.Sprintf("hash %d requested from %s which never announced it", h, r.peer)
			}
			asked[r.peer]++
			if arrive >= 0 && r.at > arrive {
				return "request-after-arrival", fmt.Sprintf("hash %d arrived at %v but a request to %s was issued at %v", h, arrive, r.peer, r.at)
			}
			// parallel cap: requests issued within less than pullDelay of each other form one parallel group
			group := 1
			for j := i - 1; j >= 0 && r.at-rs[j].at < pullDelay; j-- {
				group++
			}
			if group > sc.cap() {
				return "parallel-pull-cap-exceeded", fmt.Sprintf("hash %d: %d requests within one pull delay (cap %d) around %v", h, group, sc.cap(), r.at)
			}
		}
		for p, c := range asked {
			if c > annCount[p] {
				return "announcer-asked-more-often-than-it-announced", fmt.Sprintf("hash %d requested %d times from %s which announced it %d times", h, c, p, annCount[p])
			}
		}
		// fallback requests (beyond the immediate ones) only after the pull delay since the previous pull
		immediate := 0
		for _, r := range rs {
			if r.at == rs[0].at {
				immediate++
			}
		}
		for i := immediate; i < len(rs) && !staggered; i++ {
			if rs[i].at-rs[i-1].at < pullDelay && !(sc.LateAnn > 0 && rs[i].at == time.Duration(sc.LateAnn)*time.Millisecond) {
				return "fallback-before-pull-delay", fmt.Sprintf("hash %d: fallback request to %s at %v only %v after the previous pull", h, rs[i].peer, rs[i].at, rs[i].at-rs[i-1].at)
			}
		}
		// nothing lost: at the horizon the item is held or every announcer that could still serve was asked
		if !o.held[h] {
			horizonPulls := 1 + int((horizon)/pullDelay) // immediate group + one per elapsed delay
			want := n
			if want > immediate+horizonPulls-1 && !staggered { // (staggered scenarios choose a horizon at which everybody must have been asked)
				want = immediate + horizonPulls - 1
			}
			if len(asked) < want {
				return "announcer-lost", fmt.Sprintf("hash %d never arrived; %d of %d announcers were asked within the horizon (%v), at least %d expected", h, len(asked), n, rs, want)
			}
		}
	}
	// quiescence: nothing pending for items that arrived; pending list drained when everyone was asked
	allArrived := true
	for h := range sc.ArriveAt {
		if !o.held[h] {
			allArrived = false
		}
	}
	// (an active-pull entry can outlive the arrival when RegisterPull loses the race against
	// RemovePull; the gc sweep bounds those, so only the pending list must be drained)
	if allArrived && o.pending != 0 {
		return "tracker-not-empty-at-quiescence", fmt.Sprintf("all items arrived but the tracker still holds %d pending announcers", o.pending)
	}
	return "", ""
}

func traceStr(o *obs) string {
	var s []string
	for _, r := range o.reqs {
		s = append(s, fmt.Sprintf("%v:%s<-h%d", r.at, r.peer, r.hash))
	}
	return strings.Join(s, " ")
}

func scenarios(thorough bool) []scenario {
	var out []scenario
	arrivals := []int{-1, 0, 50, 100, 150, 250}
	for _, np := range []int{2, 3, 4} {
		for _, at := range arrivals {
			var ann [][2]int
			for p := 1; p <= np; p++ {
				ann = append(ann, [2]int{p, 0})
			}
			out = append(out, scenario{Name: fmt.Sprintf("%d peers announce one item, arrival %dms", np, at), Announce: ann, ArriveAt: []int{at}, Preheld: []bool{false}})
		}
	}
	out = append(out,
		scenario{Name: "held item announced by 3 peers", Announce: [][2]int{{1, 0}, {2, 0}, {3, 0}}, ArriveAt: []int{-1}, Preheld: []bool{true}},
		scenario{Name: "two items, 2 peers each, one arrives", Announce: [][2]int{{1, 0}, {2, 0}, {1, 1}, {3, 1}}, ArriveAt: []int{70, -1}, Preheld: []bool{false, false}},
		scenario{Name: "4 peers, last announces late (120ms), never arrives", Announce: [][2]int{{1, 0}, {2, 0}, {3, 0}, {4, 0}}, ArriveAt: []int{-1}, Preheld: []bool{false}, LateAnn: 120},
		scenario{Name: "same peer announces twice + another", Announce: [][2]int{{1, 0}, {1, 0}, {2, 0}}, ArriveAt: []int{150}, Preheld: []bool{false}},
	)
	// staggered announcements with the tx pool's parallel cap of 1: a later announcement of an item whose
	// pull is older is queued *ahead* of the entry the tracker loop is sleeping on
	out = append(out,
		scenario{Name: "pool-like holder: B pulled at 0, A at 50 and 60, B again at 100 (queued ahead of the sleeping head)", Pool: true, HorizonMs: 600,
			Announce: [][2]int{{1, 1}, {1, 0}, {2, 0}, {3, 1}}, AnnAt: []int{0, 50, 60, 100}, ArriveAt: []int{-1, -1}, Preheld: []bool{false, false}},
		scenario{Name: "pool-like holder: B pulled at 0, A at 50 and 60, B again at 100, A arrives at 120", Pool: true, HorizonMs: 600,
			Announce: [][2]int{{1, 1}, {1, 0}, {2, 0}, {3, 1}}, AnnAt: []int{0, 50, 60, 100}, ArriveAt: []int{120, -1}, Preheld: []bool{false, false}},
		scenario{Name: "pool-like holder: three items staggered, second announcers interleaved", Pool: true, HorizonMs: 800,
			Announce: [][2]int{{1, 0}, {1, 1}, {1, 2}, {2, 2}, {2, 1}, {2, 0}}, AnnAt: []int{0, 30, 60, 70, 80, 130}, ArriveAt: []int{-1, -1, -1}, Preheld: []bool{false, false, false}},
		scenario{Name: "pool-like holder: 3 peers announce one item, it arrives at 50ms (during the fall-back delay)", Pool: true, HorizonMs: 500,
			Announce: [][2]int{{1, 0}, {2, 0}, {3, 0}}, AnnAt: []int{0, 0, 0}, ArriveAt: []int{50}, Preheld: []bool{false}},
		scenario{Name: "default holder: A by 5 peers at 0..40, B by 5 peers at 5..130", HorizonMs: 900,
			Announce: [][2]int{{1, 0}, {2, 0}, {3, 0}, {4, 0}, {5, 0}, {1, 1}, {2, 1}, {3, 1}, {4, 1}, {5, 1}}, AnnAt: []int{0, 10, 20, 30, 40, 5, 15, 25, 110, 130}, ArriveAt: []int{-1, -1}, Preheld: []bool{false, false}},
	)
	// the manager's outgoing pull queue (5000 slots) is full while the first announcers announce: their pulls are
	// throttled; announcers that come after the queue was drained must still be asked (fall-back via the tracker)
	out = append(out,
		scenario{Name: "pool-like holder: pull queue full until 10ms, P1 at 0 (throttled), P2 at 20, P3 at 30, never arrives", Pool: true, HorizonMs: 700, FullUntil: 10,
			Announce: [][2]int{{1, 0}, {2, 0}, {3, 0}}, AnnAt: []int{0, 20, 30}, ArriveAt: []int{-1}, Preheld: []bool{false}},
		scenario{Name: "default holder: pull queue full until 10ms, P1..P3 at 0 (throttled), P4 at 20, P5 at 30, never arrives", HorizonMs: 700, FullUntil: 10,
			Announce: [][2]int{{1, 0}, {2, 0}, {3, 0}, {4, 0}, {5, 0}}, AnnAt: []int{0, 0, 0, 20, 30}, ArriveAt: []int{-1}, Preheld: []bool{false}},
		scenario{Name: "default holder: pull queue full until 10ms, P1 at 0 (throttled), P2, P3 at 20 (immediate), P4 at 30, never arrives", HorizonMs: 700, FullUntil: 10,
			Announce: [][2]int{{1, 0}, {2, 0}, {3, 0}, {4, 0}}, AnnAt: []int{0, 20, 20, 30}, ArriveAt: []int{-1}, Preheld: []bool{false}},
	)
	if thorough {
		// the thorough tier usually ends at its deadline: explore the full-queue scenarios (the newest ones) first
		var fq, rest []scenario
		for _, sc := range out {
			if sc.FullUntil > 0 {
				fq = append(fq, sc)
			} else {
				rest = append(rest, sc)
			}
		}
		out = append(fq, rest...)
	}
	if thorough {
		out = append(out, scenario{Name: "two items, 3 peers each, staggered arrivals", Announce: [][2]int{{1, 0}, {2, 0}, {3, 0}, {1, 1}, {2, 1}, {3, 1}}, ArriveAt: []int{120, 220}, Preheld: []bool{false, false}})
	}
	return out
}

func main() {
	run := report.New("C20")
	if os.Getenv("VERIF_RACEPASS") != "" {
		// free-running pass under the race detector: same thread bodies, real goroutines, real time
		reps := 30
		for _, sc := range scenarios(run.Thorough()) {
			for i := 0; i < reps; i++ {
				o := &obs{announced: map[int][]string{}, held: make([]bool, len(sc.ArriveAt))}
				var tr *pushpull.DefaultPushTracker
				var ho pushpull.Holder
				sched.RunFree(sc.horizon()/4, scenarioBody(sc, o, &tr, &ho))
			}
		}
		return
	}
	run.SetBudget(5*60e9, 20*60e9)
	bound := 2
	if run.Thorough() {
		bound = 3
	}
	totalExec := 0
	outcomes := map[string]bool{}
	for _, sc := range scenarios(run.Thorough()) {
		if run.Expired("scenario enumeration") {
			break
		}
		// determinism proof obligation: the default schedule replayed twice gives the same observation
		_, o1 := runScenario(sc, nil)
		_, o2 := runScenario(sc, nil)
		if traceStr(o1) != traceStr(o2) {
			report.HarnessError("nondeterministic replay in scenario %q: %q vs %q", sc.Name, traceStr(o1), traceStr(o2))
		}
		var lastObs *obs
		stats := exploreScenario(run, sc, bound, outcomes, &lastObs)
		totalExec += stats.Executions
		if stats.Truncated {
			run.Cap(fmt.Sprintf("scenario %q: execution cap reached at preemption bound %d", sc.Name, bound))
		}
		run.Sample(map[string]interface{}{"scenario": sc, "executions": stats.Executions, "max_scheduling_points": stats.MaxPoints, "sample_trace": traceStr(lastObs)})
		fmt.Printf("C20: %-60s executions=%d maxpoints=%d\n", sc.Name, stats.Executions, stats.MaxPoints)
		if run.Violations() > 0 {
			break
		}
	}
	run.RacePass()
	run.Set("evaluations", totalExec)
	run.Set("states", len(outcomes))
	run.Set("transitions", totalExec)
	run.Set("schedules_explored", totalExec)
	run.Set("deviation_bound_completed", bound)
	run.Set("traces_validated_against_impl", totalExec)
	run.Set("distinct_nontrivial", len(outcomes))
	run.Assume = append(run.Assume, "scheduling points at every sync/atomic operation, channel wait, Sleep and spawn of common/pushpull and protocol/pushpull.go; go-cache's internal locks are not scheduling points (no hooked call inside their critical sections)",
		"virtual time horizon 3.5 pull delays; the gc goroutine (1 min period) lies outside it; data races are the subject of the separate free-running -race pass")
	run.Finish("model_checking", fmt.Sprintf("stateless DFS with deviation bounding (every non-default scheduling choice costs one; bound %d completed unless a cap is listed) over the real DefaultPushTracker.loop, PushPullManager.addPush/loop and DefaultHolder under a cooperative scheduler with virtual time: scenarios = 2..4 peers announcing one or two items x arrival at {never, 0, 0.5, 1, 1.5, 2.5} pull delays, held items, late and repeated announcers; oracle on the emitted request trace: immediate first request, cap of 3 per pull-delay window, fallback only after the pull delay, nothing after arrival, nothing for held items, no announcer lost, tracker empty at quiescence, no deadlock/panic; distinct = distinct request traces", bound))
}

func exploreScenario(run *report.Run, sc scenario, bound int, outcomes map[string]bool, last **obs) sched.Stats {
	var cur *obs
	body := func(e *sched.Exec) {}
	_ = body
	// Explore needs the body to rebuild the world for every execution: wrap runScenario's pieces
	var st sched.Stats
	stop := false
	var rec func(prefix []int)
	maxExec := 300000
	rec = func(prefix []int) {
		if stop {
			return
		}
		if st.Executions >= maxExec || run.Expired("schedule exploration") {
			st.Truncated = true
			return
		}
		x, o := runScenario(sc, prefix)
		cur = o
		*last = o
		st.Executions++
		if len(x.Points) > st.MaxPoints {
			st.MaxPoints = len(x.Points)
		}
		if x.Diverged != "" {
			report.HarnessError("scenario %q: %s", sc.Name, x.Diverged)
		}
		outcomes[sc.Name+"|"+traceStr(o)] = true
		if key, what := judge(sc, x, o); key != "" {
			// reproduce before reporting
			x2, o2 := runScenario(sc, x.Choices())
			if k2, _ := judge(sc, x2, o2); k2 != key {
				report.HarnessError("scenario %q: violation %s does not reproduce under its own schedule (%s)", sc.Name, key, k2)
			}
			run.Violation(key, fmt.Sprintf("%s | scenario %q | requests: %s | schedule %v", what, sc.Name, traceStr(o), x.Choices()), map[string]interface{}{"scenario": sc, "schedule": x.Choices()})
			stop = true
			return
		}
		pts := x.Points
		ch := x.Choices()
		for i := len(prefix); i < len(pts); i++ {
			// deviation bounding: every departure from the default schedule (continue the running
			// thread; when it blocks, the lowest-numbered enabled thread) costs one, whether it preempts
			// a runnable thread or picks another thread at a forced switch
			base := 0
			for j := 0; j < i; j++ {
				if pts[j].Chosen != 0 {
					base++
				}
			}
			for alt := 1; alt < pts[i].Enabled; alt++ {
				cost := base + 1
				if cost > bound {
					continue
				}
				rec(append(append([]int{}, ch[:i]...), alt))
				if stop {
					return
				}
			}
		}
	}
	rec(nil)
	_ = cur
	return st
}
