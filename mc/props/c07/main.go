// C07 — a certificate is accepted iff it holds a quorum of distinct committee votes.
//
// Bounded-exhaustive enumeration over synthesised validator sets (sizes, pools,
// discrimination, god-only mode) x steps x seeds x vote multisets; decided on the real
// ValidateBlockCert, the real countVotes (fed through the real Votes.AddVote) and the real
// committee draw, against an independent reference predicate.
package main

import (
	"bytes"
	"encoding/binary"
	"fmt"
	"math"
	"math/rand"
	"sort"
	"time"

	"github.com/idena-network/idena-go/blockchain/types"
	"github.com/idena-network/idena-go/common"
	"github.com/idena-network/idena-go/common/eventbus"
	"github.com/idena-network/idena-go/consensus"
	"github.com/idena-network/idena-go/core/appstate"
	"github.com/idena-network/idena-go/core/validators"
	"github.com/idena-network/idena-go/crypto"
	"github.com/idena-network/idena-go/pengings"
	"github.com/idena-network/idena-go/verifhook"
	dbm "github.com/tendermint/tm-db"
	"verif/mc/replica"
	"verif/mc/report"
	"verif/mc/shard"
	"verif/mc/world"
)

// ---------------------------------------------------------------- validator set shapes

type member struct {
	Key           int  `json:"key"`
	Online        bool `json:"online"`
	Discriminated bool `json:"disc"`
	Delegatee     int  `json:"delegatee"` // key index of the pool, -1 = none
	Validated     bool `json:"validated"`
}

type shape struct {
	Name    string   `json:"name"`
	Members []member `json:"members"`
}

const keyBase = 300

func addr(k int) common.Address { return crypto.PubkeyToAddress(replica.Key(keyBase + k).PublicKey) }

func buildCache(s shape, god common.Address) (*appstate.AppState, *validators.ValidatorsCache) {
	app, err := appstate.NewAppState(dbm.NewMemDB(), eventbus.New())
	if err != nil {
		panic(err)
	}
	app.State.SetGodAddress(god)
	for _, m := range s.Members {
		a := addr(m.Key)
		if m.Validated {
			app.IdentityState.SetValidated(a, true)
		}
		if m.Online {
			app.IdentityState.SetOnline(a, true)
		}
		if m.Discriminated {
			app.IdentityState.SetDiscriminated(a, true)
		}
		if m.Delegatee >= 0 {
			app.IdentityState.SetDelegatee(a, addr(m.Delegatee))
		}
	}
	app.State.Commit(true)
	app.IdentityState.Commit(true)
	vc := validators.NewValidatorsCache(app.IdentityState, god)
	vc.Load()
	app.ValidatorsCache = vc
	return app, vc
}

// ---------------------------------------------------------------- reference model

type refCommittee struct {
	orig, voters, approved map[common.Address]bool
	setup                  bool
}

// reference committee: written from the description of the protocol, not from validators.go
func refDraw(s shape, god common.Address, seed types.Seed, round uint64, step uint8, percent, finalPercent float64, maxSize int) (rc refCommittee, size int) {
	byKey := map[int]member{}
	for _, m := range s.Members {
		byKey[m.Key] = m
	}
	// pools: delegatee -> delegators
	pools := map[int][]int{}
	for _, m := range s.Members {
		if m.Delegatee >= 0 {
			pools[m.Delegatee] = append(pools[m.Delegatee], m.Key)
		}
	}
	onlineCount := 0
	// the voting units: online validated identities, and all delegators of online pools
	unit := map[common.Address]bool{}
	for _, m := range s.Members {
		if m.Online {
			onlineCount++
			if m.Validated {
				unit[addr(m.Key)] = true
			}
			for _, d := range pools[m.Key] {
				unit[addr(d)] = true
			}
		}
	}
	rc = refCommittee{orig: map[common.Address]bool{}, voters: map[common.Address]bool{}, approved: map[common.Address]bool{}, setup: true}
	if onlineCount == 0 {
		rc.orig[god], rc.voters[god], rc.approved[god] = true, true, true
		return rc, 0
	}
	var list []common.Address
	for a := range unit {
		list = append(list, a)
	}
	sort.Slice(list, func(i, j int) bool { return bytes.Compare(list[i][:], list[j][:]) > 0 }) // descending
	n := len(list)
	size = n
	if n > 8 {
		p := percent
		if step == types.Final {
			p = finalPercent
		}
		size = int(math.Round(float64(n) * p))
		if size > maxSize {
			size = maxSize
		}
	}
	var chosen []common.Address
	switch {
	case n == size:
		chosen = list
	case n < size:
		rc.setup = false
		return rc, size
	default:
		h := crypto.Hash([]byte(fmt.Sprintf("%v-%v-%v", common.Bytes2Hex(seed[:]), round, step)))
		rnd := rand.New(rand.NewSource(int64(binary.LittleEndian.Uint64(h[:]))))
		perm := rnd.Perm(n)
		for i := 0; i < size; i++ {
			chosen = append(chosen, list[perm[i]])
		}
	}
	keyOf := map[common.Address]int{}
	for _, m := range s.Members {
		keyOf[addr(m.Key)] = m.Key
	}
	poolApproved := func(pool int) bool {
		// a pool is approved while at least one of {owner, delegators} is validated and not discriminated
		if pm, ok := byKey[pool]; ok && pm.Validated && !pm.Discriminated {
			return true
		}
		for _, d := range pools[pool] {
			if dm := byKey[d]; dm.Validated && !dm.Discriminated {
				return true
			}
		}
		return false
	}
	for _, a := range chosen {
		rc.orig[a] = true
		m := byKey[keyOf[a]]
		if m.Delegatee >= 0 {
			rc.voters[addr(m.Delegatee)] = true
			if poolApproved(m.Delegatee) {
				rc.approved[addr(m.Delegatee)] = true
			}
		} else {
			rc.voters[a] = true
			if !m.Discriminated {
				rc.approved[a] = true
			}
		}
	}
	return rc, size
}

func refThreshold(validatorsSize, committeeSize int, agreement float64) int {
	switch validatorsSize {
	case 0, 1:
		return 1
	case 2, 3:
		return 2
	case 4, 5:
		return 3
	case 6, 7:
		return 4
	case 8:
		return 5
	}
	return int(math.Round(float64(committeeSize) * agreement))
}

// ---------------------------------------------------------------- votes

type voteSpec struct {
	Kind string `json:"kind"` // genuine dup second-flag nonmember unknown otherhash otherparent otherround otherstep garbage
	Key  int    `json:"key"`
}

func sign(k int, round uint64, step uint8, parent, hash common.Hash, off bool, upgrade uint32) *types.Vote {
	v := &types.Vote{Header: &types.VoteHeader{Round: round, Step: step, ParentHash: parent, VotedHash: hash, TurnOffline: off, Upgrade: upgrade}}
	h := crypto.SignatureHash(v)
	v.Signature, _ = crypto.Sign(h[:], replica.Key(keyBase+k))
	return v
}

type env struct {
	run    *report.Run
	chainR *replica.Replica
}

func setToKeys(m map[common.Address]bool) []string {
	var r []string
	for a := range m {
		r = append(r, a.Hex()[2:8])
	}
	sort.Strings(r)
	return r
}

func implSet(x interface{ ToSlice() []interface{} }) []string {
	var r []string
	for _, v := range x.ToSlice() {
		r = append(r, v.(common.Address).Hex()[2:8])
	}
	sort.Strings(r)
	return r
}

func checkShape(e *env, s shape, out *shard.Out, thorough bool) {
	fail := func(key, what string, detail interface{}) {
		out.Violation(key, what+" | validator set "+s.Name, map[string]interface{}{"shape": s, "detail": detail})
	}
	chain := e.chainR.Chain
	cons := e.chainR.Cfg.Consensus
	god := addr(9999)
	app, vc := buildCache(s, god)
	out.Count("validator_sets", 1)
	parentHdr := e.chainR.Chain.Head
	blk := e.chainR.Empty()
	hash, parent, round := blk.Hash(), parentHdr.Hash(), blk.Height()
	for _, step := range []uint8{1, 2, types.Final} {
		// ---- committee determinism and reference draw
		limit := chain.GetCommitteeSize(vc, step == types.Final)
		sv := vc.GetOnlineValidators(parentHdr.Seed(), round, step, limit)
		rc, rsize := refDraw(s, god, parentHdr.Seed(), round, step, cons.CommitteePercent, cons.FinalCommitteePercent, cons.MaxCommitteeSize)
		out.Count("committees_drawn", 1)
		if vc.OnlineSize() > 0 && rsize != limit {
			fail("committee-size-differs", fmt.Sprintf("step %d: committee size %d, reference %d", step, limit, rsize), nil)
			return
		}
		if (sv != nil) != rc.setup {
			fail("committee-setup-differs", fmt.Sprintf("step %d: committee drawn=%v, reference says %v", step, sv != nil, rc.setup), nil)
			return
		}
		if sv == nil {
			continue
		}
		if fmt.Sprint(implSet(sv.Original)) != fmt.Sprint(setToKeys(rc.orig)) || fmt.Sprint(implSet(sv.Validators)) != fmt.Sprint(setToKeys(rc.voters)) || fmt.Sprint(implSet(sv.ApprovedValidators)) != fmt.Sprint(setToKeys(rc.approved)) {
			fail("committee-differs-from-reference", fmt.Sprintf("step %d: drawn committee %v / voters %v / approved %v, reference %v / %v / %v", step, implSet(sv.Original), implSet(sv.Validators), implSet(sv.ApprovedValidators), setToKeys(rc.orig), setToKeys(rc.voters), setToKeys(rc.approved)), nil)
			return
		}
		// same committee from a clone and under reversed map/set iteration
		cl := vc.Clone().GetOnlineValidators(parentHdr.Seed(), round, step, limit)
		verifhook.OrderChooser = func(site string, n int) []int {
			p := make([]int, n)
			for i := range p {
				p[i] = n - 1 - i
			}
			return p
		}
		_, vc2 := buildCache(s, god)
		rv := vc2.GetOnlineValidators(parentHdr.Seed(), round, step, limit)
		verifhook.OrderChooser = nil
		if cl == nil || rv == nil || fmt.Sprint(implSet(cl.ApprovedValidators)) != fmt.Sprint(implSet(sv.ApprovedValidators)) || fmt.Sprint(implSet(rv.ApprovedValidators)) != fmt.Sprint(implSet(sv.ApprovedValidators)) || fmt.Sprint(implSet(rv.Original)) != fmt.Sprint(implSet(sv.Original)) {
			fail("committee-not-deterministic", fmt.Sprintf("step %d: a cloned cache or a cache loaded under reversed iteration order draws a different committee", step), nil)
			return
		}
		// ---- certificates
		T := refThreshold(vc.ValidatorsSize(), limit, cons.AgreementThreshold)
		necessary := T - int(math.Round(float64(len(rc.orig)-len(rc.approved))*cons.AgreementThreshold))
		// voter keys: approved committee voters (sorted), a non-approved voter, a validated non-member, an unknown key
		keyOf := map[common.Address]int{}
		for _, m := range s.Members {
			keyOf[addr(m.Key)] = m.Key
		}
		var approvedKeys []int
		for a := range rc.approved {
			if k, ok := keyOf[a]; ok {
				approvedKeys = append(approvedKeys, k)
			}
		}
		sort.Ints(approvedKeys)
		if rc.approved[god] {
			continue // god-only mode is signed with the chain's own god key in C08; skip the multiset part here
		}
		nonMember := -1
		for _, m := range s.Members {
			if m.Validated && !rc.voters[addr(m.Key)] && !rc.orig[addr(m.Key)] {
				nonMember = m.Key
				break
			}
		}
		unknown := 7000
		maxK := necessary + 1
		if maxK > len(approvedKeys) {
			maxK = len(approvedKeys)
		}
		junkKinds := []string{"none", "dup", "second-flag", "nonmember", "unknown", "otherhash", "otherparent", "otherround", "otherstep", "garbage"}
		ks := []int{}
		for k := 0; k <= maxK; k++ {
			if len(approvedKeys) > 12 && k < necessary-1 && k != 0 {
				continue // large committees: boundary families only
			}
			ks = append(ks, k)
		}
		for _, k := range ks {
			for _, junk := range junkKinds {
				for _, first := range []bool{false, true} {
					if junk == "none" && first {
						continue
					}
					var votes []*types.Vote
					for i := 0; i < k; i++ {
						votes = append(votes, sign(approvedKeys[i], round, step, parent, hash, false, 0))
					}
					var jv *types.Vote
					pureDup := false
					switch junk {
					case "dup":
						if k == 0 {
							continue
						}
						jv = sign(approvedKeys[0], round, step, parent, hash, false, 0)
						pureDup = true
					case "second-flag":
						if k == 0 {
							continue
						}
						jv = sign(approvedKeys[0], round, step, parent, hash, true, 0)
						pureDup = true
					case "nonmember":
						if nonMember < 0 {
							continue
						}
						jv = sign(nonMember, round, step, parent, hash, false, 0)
					case "unknown":
						jv = sign(unknown, round, step, parent, hash, false, 0)
					case "otherhash":
						if len(approvedKeys) <= k {
							continue
						}
						jv = sign(approvedKeys[k], round, step, parent, common.Hash{7}, false, 0)
					case "otherparent":
						if len(approvedKeys) <= k {
							continue
						}
						jv = sign(approvedKeys[k], round, step, common.Hash{8}, hash, false, 0)
					case "otherround":
						if len(approvedKeys) <= k {
							continue
						}
						jv = sign(approvedKeys[k], round+1, step, parent, hash, false, 0)
					case "otherstep":
						if len(approvedKeys) <= k {
							continue
						}
						st2 := step + 1
						if step == types.Final {
							st2 = 1
						}
						jv = sign(approvedKeys[k], round, st2, parent, hash, false, 0)
					case "garbage":
						jv = &types.Vote{Header: &types.VoteHeader{Round: round, Step: step, ParentHash: parent, VotedHash: hash}, Signature: bytes.Repeat([]byte{0x5a}, 65)}
					}
					if jv != nil {
						if first {
							votes = append([]*types.Vote{jv}, votes...)
						} else {
							votes = append(votes, jv)
						}
					}
					if len(votes) == 0 {
						continue
					}
					// a certificate can carry only one (round, step, hash): votes of other round/step/hash are
					// re-labelled by Compress() and then no longer verify for their signer
					cert := (&types.FullBlockCert{Votes: votes}).Compress()
					// the certificate under test is always labelled (round, step, hash): a vote signed for another
					// round/step/hash must not count under that label (a certificate made only of such votes and
					// labelled accordingly would simply be a genuine certificate of that other step)
					cert.Round, cert.Step, cert.VotedHash = round, step, hash
					out.Count("certificates", 1)
					var err error
					func() {
						defer func() {
							if p := recover(); p != nil {
								err = fmt.Errorf("PANIC %v", p)
							}
						}()
						err = chain.ValidateBlockCert(parentHdr, blk.Header, cert, vc, nil)
					}()
					if err != nil && len(err.Error()) > 5 && err.Error()[:5] == "PANIC" {
						fail("validateblockcert-panics", fmt.Sprintf("step %d k=%d junk=%s: %v", step, k, junk, err), nil)
						return
					}
					quorum := k >= necessary
					if err == nil && !quorum {
						fail("cert-accepted-without-quorum:"+junk, fmt.Sprintf("step %d: certificate with %d genuine distinct approved votes (+%s junk) accepted, %d needed (threshold %d, committee %d, approved %d)", step, k, junk, necessary, T, len(rc.orig), len(rc.approved)), nil)
						return
					}
					if err != nil && quorum && (junk == "none" || pureDup) {
						fail("genuine-quorum-rejected:"+junk, fmt.Sprintf("step %d: certificate with %d genuine distinct approved votes (%d needed) and only %s rejected: %v", step, k, necessary, junk, err), nil)
						return
					}
					out.Outcome(fmt.Sprintf("quorum=%v junk=%s accepted=%v", quorum, junk, err == nil))
				}
			}
		}
		// ---- the vote counter: every emitted certificate is a genuine quorum
		if len(approvedKeys) <= 12 || thorough {
			for _, k := range []int{necessary - 1, necessary, maxK} {
				if k < 0 || k > len(approvedKeys) {
					continue
				}
				votesPool := pengings.NewVotes(app, eventbus.New(), e.chainR.Offline, e.chainR.Upgrader)
				votesPool.Initialize(parentHdr)
				for i := 0; i < k; i++ {
					votesPool.AddVote(sign(approvedKeys[i], round, step, parent, hash, false, 0))
				}
				if k > 0 {
					votesPool.AddVote(sign(approvedKeys[0], round, step, parent, hash, true, 0)) // equivocation on the flag
				}
				if nonMember >= 0 {
					votesPool.AddVote(sign(nonMember, round, step, parent, hash, false, 0))
				}
				votesPool.AddVote(sign(unknown, round, step, parent, hash, false, 0))
				if len(approvedKeys) > k {
					votesPool.AddVote(sign(approvedKeys[k], round, step, common.Hash{8}, hash, false, 0))
					st2 := step + 1
					if step == types.Final {
						st2 = 1
					}
					votesPool.AddVote(sign(approvedKeys[k], round, st2, parent, hash, false, 0))
				}
				e.chainR.Activate()
				replica.SetTime(world.T0 + 1000)
				eng := consensus.VerifNewCounter(chain, app, votesPool, e.chainR.Offline, e.chainR.Cfg)
				// countVotes draws its committee from chain.Head.Seed(): same parent header
				h, fc, err := eng.VerifCountVotes(round, step, parent, T, 2*time.Second)
				out.Count("vote_counts", 1)
				if err != nil {
					out.Outcome("counter: no certificate")
					continue
				}
				signers := map[common.Address]bool{}
				for _, v := range fc.Votes {
					if v.Header.Round != round || v.Header.Step != step || v.Header.ParentHash != parent || v.Header.VotedHash != h {
						fail("counter-emits-foreign-vote", fmt.Sprintf("step %d: the counter's certificate contains a vote for another round/step/parent/hash", step), nil)
						return
					}
					a := v.VoterAddr()
					if rc.approved[a] {
						signers[a] = true
					}
				}
				if len(signers) < necessary || h != hash {
					fail("counter-emits-without-quorum", fmt.Sprintf("step %d: the counter emitted a certificate with %d distinct approved voters, %d needed (k=%d offered)", step, len(signers), necessary, k), nil)
					return
				}
				if verr := chain.ValidateBlockCert(parentHdr, blk.Header, fc.Compress(), vc, nil); verr != nil {
					fail("counter-certificate-rejected", fmt.Sprintf("step %d: the counter's own certificate is rejected by ValidateBlockCert: %v", step, verr), nil)
					return
				}
				out.Outcome("counter: certificate with quorum")
			}
		}
	}
	out.Sample(map[string]interface{}{"validator_set": s.Name, "members": len(s.Members)})
}

// ---------------------------------------------------------------- shape enumeration

func shapes(thorough bool) []shape {
	var out []shape
	maxFull := 4
	if thorough {
		maxFull = 5
	}
	// sizes 0..maxFull: every (online, discriminated, delegatee in {none, member 0, member 1}) combination per member
	for n := 0; n <= maxFull; n++ {
		opts := 2 * 2 * 3
		total := 1
		for i := 0; i < n; i++ {
			total *= opts
		}
		for code := 0; code < total; code++ {
			c := code
			s := shape{}
			ok := true
			for i := 0; i < n; i++ {
				o := c % opts
				c /= opts
				m := member{Key: i, Validated: true, Online: o&1 != 0, Discriminated: o&2 != 0, Delegatee: -1}
				switch o / 4 {
				case 1:
					m.Delegatee = 0
				case 2:
					m.Delegatee = 1
				}
				if m.Delegatee == i || m.Delegatee >= n {
					ok = false
				}
				if m.Delegatee >= 0 && m.Online {
					ok = false // delegators are never online themselves
				}
				s.Members = append(s.Members, m)
			}
			if !ok {
				continue
			}
			// a pool owner must not itself delegate (no chains)
			for _, m := range s.Members {
				if m.Delegatee >= 0 && s.Members[m.Delegatee].Delegatee >= 0 {
					ok = false
				}
			}
			if !ok {
				continue
			}
			s.Name = fmt.Sprintf("n=%d code=%d", n, code)
			out = append(out, s)
		}
	}
	// plain sizes 5..12 and around the committee arithmetic
	sizes := []int{5, 6, 7, 8, 9, 10, 11, 12}
	if thorough {
		sizes = append(sizes, 99, 100, 101, 142, 143, 144, 300)
	} else {
		sizes = append(sizes, 100, 143)
	}
	for _, n := range sizes {
		for _, disc := range []int{0, 1, n / 3} {
			s := shape{Name: fmt.Sprintf("plain n=%d discriminated=%d", n, disc)}
			for i := 0; i < n; i++ {
				s.Members = append(s.Members, member{Key: i, Validated: true, Online: true, Discriminated: i < disc, Delegatee: -1})
			}
			// plus two offline validated identities (non-members)
			s.Members = append(s.Members, member{Key: n, Validated: true, Delegatee: -1}, member{Key: n + 1, Validated: true, Delegatee: -1})
			out = append(out, s)
		}
		// one pool of 3 delegators among them
		s := shape{Name: fmt.Sprintf("n=%d with a pool of 3 (one discriminated)", n)}
		for i := 0; i < n; i++ {
			s.Members = append(s.Members, member{Key: i, Validated: true, Online: true, Delegatee: -1})
		}
		for j := 0; j < 3; j++ {
			s.Members = append(s.Members, member{Key: n + j, Validated: true, Discriminated: j == 0, Delegatee: 0})
		}
		out = append(out, s)
		// a pool whose online owner is personally discriminated while k of its delegators are approved, next to
		// discriminated singles: the owner's own seat must not count as approved, the delegators' seats must
		// (the committee is sampled from 9 seats on, so draws with the owner's seat and without a delegator's occur)
		if n <= 12 {
			for _, k := range []int{1, 2} {
				for _, singles := range []int{0, 3} {
					s := shape{Name: fmt.Sprintf("n=%d, owner 0 discriminated with %d approved delegator(s), %d discriminated singles", n, k, singles)}
					for i := 0; i < n; i++ {
						s.Members = append(s.Members, member{Key: i, Validated: true, Online: true, Discriminated: i == 0 || (i >= 1 && i <= singles), Delegatee: -1})
					}
					for j := 0; j < k; j++ {
						s.Members = append(s.Members, member{Key: n + j, Validated: true, Delegatee: 0})
					}
					out = append(out, s)
				}
			}
		}
	}
	return out
}

func main() {
	run := report.New("C07")
	run.SetBudget(5*60e9, 20*60e9)
	ss := shapes(run.Thorough())
	shard.Run(run, 0, nil, func(si shard.Info, out *shard.Out) {
		o := world.GenesisG1()
		o.Ipfs = world.Net
		replica.SetTime(world.T0)
		r, err := replica.New(o, replica.Image(nil).NewDB())
		if err != nil {
			panic(err)
		}
		e := &env{run: run, chainR: r}
		if si.I == 0 {
			godHandover(out)
		}
		for i, s := range ss {
			if !si.Mine(i) {
				continue
			}
			if run.Expired("shape enumeration") {
				out.Cap("deadline during validator-set enumeration")
				break
			}
			checkShape(e, s, out, run.Thorough())
		}
	})
	run.Set("validator_set_space", len(ss))
	run.Set("evaluations", run.Get("certificates")+run.Get("vote_counts")+run.Get("committees_drawn"))
	run.Set("states", run.Get("validator_sets"))
	run.Set("transitions", run.Get("certificates")+run.Get("vote_counts"))
	run.Set("traces_validated_against_impl", run.Get("certificates")+run.Get("vote_counts"))
	run.Set("distinct_nontrivial", run.Get("certificates"))
	run.Assume = append(run.Assume, "the reference committee and quorum predicate are written from the protocol description (sorted voting units, seeded permutation, pool collapsing, approved subtraction)",
		"large committees use boundary families of genuine vote counts (0, q-1, q, q+1); god-only certificates are exercised by C08")
	run.Finish("model_checking", "states = synthesised validator sets (every combination of online/discriminated/delegation per member up to the size bound; plain and pooled sets of 5..12 and around the committee arithmetic) x 3 steps; transitions = certificates: k genuine distinct approved votes (all k up to q+1, boundary families for large committees) x 10 junk kinds (duplicate, same key other flag, validated non-member, unknown key, other hash/parent/round/step, garbage) x first/last placement, decided by the real ValidateBlockCert; the real countVotes fed through the real Votes.AddVote; committee draw vs an independent reference, a cloned cache and a cache loaded under reversed iteration order")
}

// godHandover: god-only committees on real chains. After a ChangeGodAddressTx the node that
// never restarted, a node restarted on the same database and a node that only later joined
// must give the same verdict on certificates signed by the former and by the new god, and
// that verdict must follow the god in office (the committee of a network without online
// identities is exactly the god address of the state).
func godHandover(out *shard.Out) {
	for _, sc := range []struct {
		name string
		opts replica.Opts
	}{{"G1 god only", world.GenesisG1()}, {"G2 nobody online", world.GenesisG2()}} {
		for _, gap := range []int{0, 1, 2} { // blocks between the hand-over and the certified block
			A, err := world.OpenAs(sc.opts, nil, world.T0, world.G)
			if err != nil {
				panic(err)
			}
			now := int64(world.T0)
			b := world.NewB(A)
			tx := b.Tx(world.Spec{From: world.G, To: world.PA(world.X1), Type: types.ChangeGodAddressTx})
			if errs := world.Submit(A, []*types.Transaction{tx}); errs[0] != nil {
				panic(errs[0])
			}
			now += 20
			blk := A.Propose(now)
			if len(blk.Body.Transactions) != 1 || A.Add(blk) != nil {
				panic("god hand-over block not built")
			}
			// from here on the new god (key X1) proposes; A follows without restart
			for i := 0; i <= gap; i++ {
				N, err := world.OpenAs(sc.opts, replica.Snapshot(A.DB), now, world.X1)
				if err != nil {
					panic(err)
				}
				now += 20
				nb := N.Propose(now)
				if i < gap {
					if err := A.Add(nb); err != nil {
						out.Violation("god-handover:block-of-new-god-rejected", fmt.Sprintf("%s: the long-running node rejects a block proposed by the new god: %v", sc.name, err), nil)
						return
					}
					continue
				}
				// nb is the block to certify, on top of A's head
				F, err := world.OpenAs(sc.opts, replica.Snapshot(A.DB), now, world.G) // restarted node
				if err != nil {
					panic(err)
				}
				for _, step := range []uint8{1, 2, types.Final} {
					for _, signer := range []struct {
						who  string
						key  int
						want bool
					}{{"new god", world.X1, true}, {"former god", world.G, false}} {
						vote := &types.Vote{Header: &types.VoteHeader{Round: nb.Height(), Step: step, ParentHash: nb.Header.ParentHash(), VotedHash: nb.Header.Hash()}}
						h := crypto.SignatureHash(vote)
						vote.Signature = replica.Sec(signer.key).Sign(h[:])
						cert := (&types.FullBlockCert{Votes: []*types.Vote{vote}}).Compress()
						errA := A.Chain.ValidateBlockCert(A.Chain.Head, nb.Header, cert, A.App.ValidatorsCache, nil)
						errF := F.Chain.ValidateBlockCert(F.Chain.Head, nb.Header, cert, F.App.ValidatorsCache, nil)
						out.Count("certificates", 2)
						out.Count("god_handover_certificates", 2)
						if (errA == nil) != (errF == nil) {
							out.Violation("god-handover:long-running-vs-restarted", fmt.Sprintf("%s, %d block(s) after the hand-over, step %d: certificate signed by the %s: long-running node says %v, restarted node says %v", sc.name, gap, step, signer.who, errA, errF), nil)
							return
						}
						if (errA == nil) != signer.want {
							out.Violation("god-handover:verdict", fmt.Sprintf("%s, %d block(s) after the hand-over, step %d: certificate signed by the %s: accepted=%v", sc.name, gap, step, signer.who, errA == nil), nil)
							return
						}
						out.Outcome(fmt.Sprintf("god-handover %s accepted=%v", signer.who, errA == nil))
					}
				}
			}
		}
	}
}
