// C18 — wire and storage encodings round-trip and signatures bind every signed field.
//
// Bounded-exhaustive, reflection-driven enumeration: for every encodable type a fully
// populated base object, then for every field (recursively, exported or not) every value of
// its small domain; round trip, re-encoding stability, field influence on the encoding, and
// for signed types: every non-signature field changes the recovered signer.
package main

import (
	"bytes"
	"fmt"
	"go/ast"
	"go/parser"
	"go/token"
	"math/big"
	"os"
	"path/filepath"
	"reflect"
	"runtime/debug"
	"sort"
	"strings"
	"unsafe"

	"github.com/idena-network/idena-go/blockchain/attachments"
	"github.com/idena-network/idena-go/blockchain/types"
	"github.com/idena-network/idena-go/common"
	"github.com/idena-network/idena-go/core/flip"
	"github.com/idena-network/idena-go/core/state"
	"github.com/idena-network/idena-go/core/state/snapshot"
	"github.com/idena-network/idena-go/crypto"
	"github.com/idena-network/idena-go/rlp"
	"github.com/idena-network/idena-go/protocol"
	"verif/mc/replica"
	"verif/mc/report"
)

type codec interface {
	ToBytes() ([]byte, error)
	FromBytes([]byte) error
}

var registry = map[string]func() interface{}{
	"types.Transaction":            func() interface{} { return new(types.Transaction) },
	"types.Header":                 func() interface{} { return new(types.Header) },
	"types.Block":                  func() interface{} { return new(types.Block) },
	"types.Vote":                   func() interface{} { return new(types.Vote) },
	"types.BlockCert":              func() interface{} { return new(types.BlockCert) },
	"types.ProofProposal":          func() interface{} { return new(types.ProofProposal) },
	"types.BlockProposal":          func() interface{} { return new(types.BlockProposal) },
	"types.PublicFlipKey":          func() interface{} { return new(types.PublicFlipKey) },
	"types.PrivateFlipKeysPackage": func() interface{} { return new(types.PrivateFlipKeysPackage) },
	"types.TransactionIndex":       func() interface{} { return new(types.TransactionIndex) },
	"types.TxReceipts":             func() interface{} { return new(receiptsBox) },
	"types.Body":                   func() interface{} { return new(bodyBox) },
	"types.TxReceipt":              func() interface{} { return new(types.TxReceipt) },
	"types.TxReceiptIndex":         func() interface{} { return new(types.TxReceiptIndex) },
	"types.SavedEvent":             func() interface{} { return new(types.SavedEvent) },
	"types.UpgradeVotes":           func() interface{} { return types.NewUpgradeVotes() },
	"types.Flip":                   func() interface{} { return new(types.Flip) },
	"types.ActivityMonitor":        func() interface{} { return new(types.ActivityMonitor) },
	"types.SavedTransaction":       func() interface{} { return new(types.SavedTransaction) },
	"types.BurntCoins":             func() interface{} { return new(types.BurntCoins) },
	"state.IdentityStatusSwitch":   func() interface{} { return new(state.IdentityStatusSwitch) },
	"state.DelegationSwitch":       func() interface{} { return new(state.DelegationSwitch) },
	"state.DelayedPenalties":       func() interface{} { return new(state.DelayedPenalties) },
	"state.BurntCoins":             func() interface{} { return new(state.BurntCoins) },
	"state.Global":                 func() interface{} { return new(state.Global) },
	"state.Account":                func() interface{} { return new(state.Account) },
	"state.Identity":               func() interface{} { return new(state.Identity) },
	"state.ApprovedIdentity":       func() interface{} { return new(state.ApprovedIdentity) },
	"state.IdentityStateDiff":      func() interface{} { return new(state.IdentityStateDiff) },
	"snapshot.Manifest":            func() interface{} { return new(snapshot.Manifest) },
	"flip.IpfsFlip":                func() interface{} { return new(flip.IpfsFlip) },
	"attachments.ShortAnswerAttachment":       func() interface{} { return new(attachments.ShortAnswerAttachment) },
	"attachments.LongAnswerAttachment":        func() interface{} { return new(attachments.LongAnswerAttachment) },
	"attachments.FlipSubmitAttachment":        func() interface{} { return new(attachments.FlipSubmitAttachment) },
	"attachments.OnlineStatusAttachment":      func() interface{} { return new(attachments.OnlineStatusAttachment) },
	"attachments.BurnAttachment":              func() interface{} { return new(attachments.BurnAttachment) },
	"attachments.ChangeProfileAttachment":     func() interface{} { return new(attachments.ChangeProfileAttachment) },
	"attachments.DeleteFlipAttachment":        func() interface{} { return new(attachments.DeleteFlipAttachment) },
	"attachments.CallContractAttachment":      func() interface{} { return new(attachments.CallContractAttachment) },
	"attachments.DeployContractAttachment":    func() interface{} { return new(attachments.DeployContractAttachment) },
	"attachments.TerminateContractAttachment": func() interface{} { return new(attachments.TerminateContractAttachment) },
	"attachments.StoreToIpfsAttachment":       func() interface{} { return new(attachments.StoreToIpfsAttachment) },
}

// TxReceipts has a value-receiver API (FromBytes returns the slice): box it
type receiptsBox struct{ R types.TxReceipts }

func (b *receiptsBox) ToBytes() ([]byte, error) { return b.R.ToBytes() }
func (b *receiptsBox) FromBytes(d []byte) error { b.R = types.TxReceipts{}.FromBytes(d); return nil }

// Body.ToBytes returns no error: box it
type bodyBox struct{ B types.Body }

func (b *bodyBox) ToBytes() ([]byte, error) { return b.B.ToBytes(), nil }
func (b *bodyBox) FromBytes(d []byte) error { b.B = types.Body{}; b.B.FromBytes(d); return nil }

// type invariants the filler must respect
func fixInvariants(x interface{}) {
	if g, ok := x.(*state.Global); ok {
		// shard tables are indexed 1..ShardsNum
		g.ShardsNum = 2
		g.ShardSizes = map[common.ShardId]uint32{1: 11, 2: 12}
		g.EmptyBlocksByShards = map[common.ShardId][]common.Address{1: {{1}}, 2: {{2}, {3}}}
	}
}

// extraObjects: shapes of invariant-constrained fields that the code itself produces and the per-field
// variation skips. Global: before the first shard balancing the stored ShardsNum is 0 while the accessors
// report shard 1, so AddEmptyBlockByShard fills key 1 of a state whose ShardsNum is 0; the shard count can
// also shrink below a key that is still present until the epoch ends.
type extraObj struct {
	x    interface{}
	what string
}

func extraObjects(name string, mk func() interface{}) []extraObj {
	if name != "state.Global" {
		return nil
	}
	var out []extraObj
	for _, sh := range []struct {
		n    uint32
		keys []common.ShardId
	}{{0, []common.ShardId{1}}, {1, []common.ShardId{1, 2}}, {2, []common.ShardId{2, 3}}, {0, []common.ShardId{0}}} {
		g := base(mk).(*state.Global)
		g.ShardsNum = sh.n
		g.ShardSizes = map[common.ShardId]uint32{}
		for i := uint32(1); i <= sh.n; i++ {
			g.ShardSizes[common.ShardId(i)] = 10 + i
		}
		g.EmptyBlocksByShards = map[common.ShardId][]common.Address{}
		for _, k := range sh.keys {
			g.EmptyBlocksByShards[k] = []common.Address{{byte(k), 7}}
		}
		out = append(out, extraObj{g, fmt.Sprintf("ShardsNum=%d with EmptyBlocksByShards keys %v", sh.n, sh.keys)})
	}
	return out
}

// transient fields by design (type.field): caches and process-local context, never encoded
var transient = map[string]string{
	"Transaction.hash":    "atomic.Value hash cache",
	"Transaction.hash128": "atomic.Value hash cache",
	"Transaction.from":    "atomic.Value sender cache",
	"Transaction.validLongSessionAnswersProof": "atomic.Value validation cache",
	"Transaction.size":    "atomic.Value size cache",
	"Vote.hash":           "atomic.Value hash cache",
	"Vote.addr":           "atomic.Value voter cache",
	"Block.hash":          "hash cache",
	"Header.hash":         "hash cache",
	"ProofProposal.hash":  "hash cache",
	"BlockProposal.hash":  "hash cache",
	"Identity.metadata":   "identity-update-hook context, consumed inside Precommit",
	"Manifest.Cid":        "legacy v1 snapshot cid, superseded by CidV2 and no longer read",
	"Flip.hash":           "hash cache",
	"PublicFlipKey.from":  "sender cache",
	"PublicFlipKey.hash":  "hash cache",
	"PrivateFlipKeysPackage.from":    "sender cache",
	"PrivateFlipKeysPackage.hash":    "hash cache",
	"PrivateFlipKeysPackage.hash128": "hash cache",
	"ProofProposal.hash128":          "hash cache",
	"Vote.hash128":                   "hash cache",
	"PublicFlipKey.hash128":          "hash cache",
}

func isTransient(t reflect.Type, f reflect.StructField) bool {
	if _, ok := transient[t.Name()+"."+f.Name]; ok {
		return true
	}
	ft := f.Type
	return strings.Contains(ft.String(), "atomic.Value") || strings.HasPrefix(ft.String(), "sync.")
}

// ---------------------------------------------------------------- reflection helpers

func settable(v reflect.Value) reflect.Value {
	if v.CanSet() {
		return v
	}
	return reflect.NewAt(v.Type(), unsafe.Pointer(v.UnsafeAddr())).Elem()
}

var bigT = reflect.TypeOf(big.Int{})

type leaf struct {
	path string
	v    reflect.Value
}

// fill populates v with distinguishing values; ctr provides the distinguishing counter.
func fill(v reflect.Value, ctr *int, depth int) {
	v = settable(v)
	*ctr++
	k := *ctr
	switch v.Kind() {
	case reflect.Bool:
		v.SetBool(true)
	case reflect.Int, reflect.Int8, reflect.Int16, reflect.Int32, reflect.Int64:
		v.SetInt(int64(k%100 + 1))
	case reflect.Uint, reflect.Uint8, reflect.Uint16, reflect.Uint32, reflect.Uint64:
		v.SetUint(uint64(k%100 + 1))
	case reflect.Float32, reflect.Float64:
		v.SetFloat(float64(k) + 0.5)
	case reflect.String:
		v.SetString(fmt.Sprintf("s%d", k))
	case reflect.Array:
		for i := 0; i < v.Len(); i++ {
			if v.Type().Elem().Kind() == reflect.Uint8 {
				settable(v.Index(i)).SetUint(uint64((k + i) % 251))
			} else {
				fill(v.Index(i), ctr, depth+1)
			}
		}
	case reflect.Slice:
		if v.Type().Elem().Kind() == reflect.Uint8 {
			v.SetBytes([]byte{byte(k), byte(k + 1), byte(k + 2)})
			return
		}
		n := 2
		if depth > 3 {
			n = 1
		}
		s := reflect.MakeSlice(v.Type(), n, n)
		for i := 0; i < n; i++ {
			fill(s.Index(i), ctr, depth+1)
		}
		v.Set(s)
	case reflect.Map:
		m := reflect.MakeMap(v.Type())
		kk := reflect.New(v.Type().Key()).Elem()
		fill(kk, ctr, depth+1)
		vv := reflect.New(v.Type().Elem()).Elem()
		fill(vv, ctr, depth+1)
		m.SetMapIndex(kk, vv)
		v.Set(m)
	case reflect.Ptr:
		if v.Type().Elem() == bigT {
			v.Set(reflect.ValueOf(big.NewInt(int64(1000 + k))))
			return
		}
		if depth > 14 {
			return
		}
		p := reflect.New(v.Type().Elem())
		fill(p.Elem(), ctr, depth+1)
		v.Set(p)
	case reflect.Struct:
		if v.Type() == bigT {
			settable(v).Set(reflect.ValueOf(*big.NewInt(int64(1000 + k))))
			return
		}
		if v.Type().String() == "time.Time" || v.Type().String() == "decimal.Decimal" {
			return // compared through their own methods; left at zero
		}
		for i := 0; i < v.NumField(); i++ {
			f := v.Type().Field(i)
			if isTransient(v.Type(), f) {
				continue
			}
			fill(v.Field(i), ctr, depth+1)
		}
	case reflect.Interface:
		// leave nil
	}
}

// leaves lists every scalar-ish field path of v.
func leaves(v reflect.Value, path string, out *[]leaf, depth int) {
	v = settable(v)
	switch v.Kind() {
	case reflect.Ptr:
		if v.IsNil() {
			return
		}
		if v.Type().Elem() == bigT {
			*out = append(*out, leaf{path, v})
			return
		}
		leaves(v.Elem(), path, out, depth+1)
	case reflect.Struct:
		if v.Type() == bigT || v.Type().String() == "time.Time" || v.Type().String() == "decimal.Decimal" {
			return
		}
		for i := 0; i < v.NumField(); i++ {
			f := v.Type().Field(i)
			if isTransient(v.Type(), f) {
				continue
			}
			leaves(v.Field(i), path+"."+f.Name, out, depth+1)
		}
	case reflect.Slice:
		if v.Type().Elem().Kind() == reflect.Uint8 {
			*out = append(*out, leaf{path, v})
			return
		}
		for i := 0; i < v.Len(); i++ {
			leaves(v.Index(i), fmt.Sprintf("%s[%d]", path, i), out, depth+1)
		}
		*out = append(*out, leaf{path + "(len)", v})
	case reflect.Array:
		*out = append(*out, leaf{path, v})
	case reflect.Map:
		*out = append(*out, leaf{path + "(map)", v})
	case reflect.Interface:
	default:
		*out = append(*out, leaf{path, v})
	}
}

// variants returns the small domain of a leaf as setter functions (each restores nothing: callers rebuild).
func variants(l leaf) []func(v reflect.Value) string {
	var out []func(v reflect.Value) string
	v := l.v
	switch v.Kind() {
	case reflect.Bool:
		out = append(out, func(v reflect.Value) string { v.SetBool(!v.Bool()); return "flip" })
	case reflect.Int, reflect.Int8, reflect.Int16, reflect.Int32, reflect.Int64:
		bits := v.Type().Bits()
		for _, x := range []int64{0, 1, 2, (int64(1) << (bits - 1)) - 1} {
			x := x
			out = append(out, func(v reflect.Value) string { v.SetInt(x); return fmt.Sprint(x) })
		}
	case reflect.Uint, reflect.Uint8, reflect.Uint16, reflect.Uint32, reflect.Uint64:
		bits := v.Type().Bits()
		max := uint64(1)<<uint(bits) - 1
		if bits == 64 {
			max = ^uint64(0)
		}
		for _, x := range []uint64{0, 1, 2, max} {
			x := x
			out = append(out, func(v reflect.Value) string { v.SetUint(x); return fmt.Sprint(x) })
		}
	case reflect.String:
		for _, s := range []string{"", "x", strings.Repeat("long-", 60)} {
			s := s
			out = append(out, func(v reflect.Value) string { v.SetString(s); return fmt.Sprintf("len%d", len(s)) })
		}
	case reflect.Slice:
		if v.Type().Elem().Kind() == reflect.Uint8 {
			for _, b := range [][]byte{nil, {}, {7}, bytes.Repeat([]byte{0xab}, 300)} {
				b := b
				out = append(out, func(v reflect.Value) string {
					if b == nil {
						v.Set(reflect.Zero(v.Type()))
						return "nil"
					}
					v.SetBytes(append([]byte{}, b...))
					return fmt.Sprintf("len%d", len(b))
				})
			}
		} else {
			out = append(out, func(v reflect.Value) string { v.Set(reflect.Zero(v.Type())); return "nil-slice" })
			out = append(out, func(v reflect.Value) string {
				if v.Len() > 1 {
					v.Set(v.Slice(0, 1))
				}
				return "len1"
			})
		}
	case reflect.Array:
		out = append(out, func(v reflect.Value) string { v.Set(reflect.Zero(v.Type())); return "zero" })
		out = append(out, func(v reflect.Value) string {
			if v.Type().Elem().Kind() == reflect.Uint8 {
				for i := 0; i < v.Len(); i++ {
					v.Index(i).SetUint(0xff)
				}
			}
			return "ff"
		})
	case reflect.Ptr: // *big.Int
		for _, x := range []*big.Int{nil, big.NewInt(0), big.NewInt(1), new(big.Int).Lsh(big.NewInt(1), 200)} {
			x := x
			out = append(out, func(v reflect.Value) string {
				if x == nil {
					v.Set(reflect.Zero(v.Type()))
					return "nil"
				}
				v.Set(reflect.ValueOf(new(big.Int).Set(x)))
				return x.String()[:1] + fmt.Sprintf("(%dbits)", x.BitLen())
			})
		}
	case reflect.Map:
		out = append(out, func(v reflect.Value) string { v.Set(reflect.Zero(v.Type())); return "nil-map" })
	}
	return out
}

// equalNorm: deep equality modulo nil<->empty slices/maps, nil<->zero big.Int, transient fields.
func equalNorm(a, b reflect.Value, path string) string {
	if a.Kind() != b.Kind() {
		return path + ": kind differs"
	}
	switch a.Kind() {
	case reflect.Ptr:
		if a.Type().Elem() == bigT {
			var x, y *big.Int
			if !a.IsNil() {
				x = settable(a).Interface().(*big.Int)
			}
			if !b.IsNil() {
				y = settable(b).Interface().(*big.Int)
			}
			zx, zy := x == nil || x.Sign() == 0, y == nil || y.Sign() == 0
			if zx != zy || !zx && x.Cmp(y) != 0 {
				return fmt.Sprintf("%s: big.Int %v vs %v", path, x, y)
			}
			return ""
		}
		if a.IsNil() || b.IsNil() {
			if a.IsNil() != b.IsNil() {
				// nil vs pointer to an all-zero struct is not equal for behaviour: report
				return path + ": nil vs non-nil pointer"
			}
			return ""
		}
		return equalNorm(a.Elem(), b.Elem(), path)
	case reflect.Struct:
		if a.Type() == bigT {
			x, y := settable(a).Addr().Interface().(*big.Int), settable(b).Addr().Interface().(*big.Int)
			if x.Cmp(y) != 0 {
				return fmt.Sprintf("%s: big.Int %v vs %v", path, x, y)
			}
			return ""
		}
		if a.Type().String() == "time.Time" || a.Type().String() == "decimal.Decimal" {
			if fmt.Sprint(settable(a).Interface()) != fmt.Sprint(settable(b).Interface()) {
				return path + ": differs"
			}
			return ""
		}
		for i := 0; i < a.NumField(); i++ {
			f := a.Type().Field(i)
			if isTransient(a.Type(), f) {
				continue
			}
			if d := equalNorm(a.Field(i), b.Field(i), path+"."+f.Name); d != "" {
				return d
			}
		}
		return ""
	case reflect.Slice:
		if a.Len() != b.Len() {
			return fmt.Sprintf("%s: len %d vs %d", path, a.Len(), b.Len())
		}
		for i := 0; i < a.Len(); i++ {
			if d := equalNorm(a.Index(i), b.Index(i), fmt.Sprintf("%s[%d]", path, i)); d != "" {
				return d
			}
		}
		return ""
	case reflect.Array:
		for i := 0; i < a.Len(); i++ {
			if d := equalNorm(a.Index(i), b.Index(i), fmt.Sprintf("%s[%d]", path, i)); d != "" {
				return d
			}
		}
		return ""
	case reflect.Map:
		if a.Len() != b.Len() {
			return fmt.Sprintf("%s: map len %d vs %d", path, a.Len(), b.Len())
		}
		for _, k := range a.MapKeys() {
			bv := b.MapIndex(k)
			if !bv.IsValid() {
				return path + ": map key missing"
			}
			av := a.MapIndex(k)
			ac, bc := reflect.New(av.Type()).Elem(), reflect.New(bv.Type()).Elem()
			ac.Set(av)
			bc.Set(bv)
			if d := equalNorm(ac, bc, path+"[k]"); d != "" {
				return d
			}
		}
		return ""
	case reflect.Interface:
		return ""
	case reflect.Bool:
		if a.Bool() != b.Bool() {
			return path + ": bool differs"
		}
	case reflect.Int, reflect.Int8, reflect.Int16, reflect.Int32, reflect.Int64:
		if a.Int() != b.Int() {
			return fmt.Sprintf("%s: %d vs %d", path, a.Int(), b.Int())
		}
	case reflect.Uint, reflect.Uint8, reflect.Uint16, reflect.Uint32, reflect.Uint64:
		if a.Uint() != b.Uint() {
			return fmt.Sprintf("%s: %d vs %d", path, a.Uint(), b.Uint())
		}
	case reflect.Float32, reflect.Float64:
		if a.Float() != b.Float() {
			return fmt.Sprintf("%s: %v vs %v", path, a.Float(), b.Float())
		}
	case reflect.String:
		if a.String() != b.String() {
			return fmt.Sprintf("%s: %q vs %q", path, a.String(), b.String())
		}
	}
	return ""
}

// ---------------------------------------------------------------- checks

type ctxT struct {
	run  *report.Run
	evals int
}

var current string

func roundTrip(c *ctxT, name string, mk func() interface{}, x interface{}, what string) bool {
	c.evals++
	current = what
	enc := x.(codec)
	b, err := enc.ToBytes()
	if err != nil {
		c.run.Outcome("encode-error")
		return true
	}
	y := mk()
	if err := y.(codec).FromBytes(b); err != nil {
		c.run.Violation("own-encoding-not-decodable:"+name, fmt.Sprintf("%s (%s): FromBytes fails on the object's own encoding: %v", name, what, err), map[string]string{"type": name, "variant": what})
		return false
	}
	if d := equalNorm(reflect.ValueOf(x).Elem(), reflect.ValueOf(y).Elem(), name); d != "" {
		c.run.Violation("round-trip-differs:"+name+":"+fieldOf(d), fmt.Sprintf("%s (%s): decode(encode(x)) differs from x at %s", name, what, d), map[string]string{"type": name, "variant": what})
		return false
	}
	b2, err := y.(codec).ToBytes()
	if err != nil || !bytes.Equal(b, b2) {
		c.run.Violation("re-encoding-differs:"+name, fmt.Sprintf("%s (%s): encode(decode(encode(x))) != encode(x) (err=%v, %d vs %d bytes)", name, what, err, len(b), len(b2)), map[string]string{"type": name, "variant": what})
		return false
	}
	// hashes stable across the round trip
	if hx, ok := x.(interface{ Hash() common.Hash }); ok {
		if hy := y.(interface{ Hash() common.Hash }); hx.Hash() != hy.Hash() {
			c.run.Violation("hash-unstable:"+name, fmt.Sprintf("%s (%s): Hash() changes across a round trip", name, what), map[string]string{"type": name, "variant": what})
			return false
		}
	}
	c.run.Outcome("round-trip-ok")
	return true
}

func fieldOf(d string) string {
	if i := strings.Index(d, ":"); i > 0 {
		d = d[:i]
	}
	if i := strings.Index(d, "["); i > 0 {
		d = d[:i]
	}
	return d
}

func base(mk func() interface{}) interface{} {
	x := mk()
	n := 0
	fill(reflect.ValueOf(x).Elem(), &n, 0)
	fixInvariants(x)
	return x
}

func checkType(c *ctxT, name string, mk func() interface{}, pairs bool) bool {
	x := base(mk)
	if !roundTrip(c, name, mk, x, "base object, every field populated") {
		return false
	}
	for _, e := range extraObjects(name, mk) {
		if !roundTrip(c, name, mk, e.x, e.what) {
			return false
		}
	}
	b0, _ := x.(codec).ToBytes()
	var ls []leaf
	leaves(reflect.ValueOf(x).Elem(), name, &ls, 0)
	c.run.Add("fields_enumerated", len(ls))
	for li := range ls {
		if skipVariant[ls[li].path] {
			continue
		}
		nv := len(variants(ls[li]))
		changed := false
		for vi := 0; vi < nv; vi++ {
			y := base(mk)
			var ly []leaf
			leaves(reflect.ValueOf(y).Elem(), name, &ly, 0)
			what := ly[li].path + "=" + variants(ly[li])[vi](ly[li].v)
			if !roundTrip(c, name, mk, y, what) {
				return false
			}
			if b1, err := y.(codec).ToBytes(); err == nil && !bytes.Equal(b1, b0) {
				changed = true
			}
			if pairs {
				for lj := li + 1; lj < len(ls); lj++ {
					z := base(mk)
					var lz []leaf
					leaves(reflect.ValueOf(z).Elem(), name, &lz, 0)
					if lj >= len(lz) {
						continue
					}
					w1 := variants(lz[li])[vi](lz[li].v)
					var lz2 []leaf
					leaves(reflect.ValueOf(z).Elem(), name, &lz2, 0)
					if lj >= len(lz2) || len(variants(lz2[lj])) == 0 || skipVariant[lz2[lj].path] {
						continue
					}
					w2 := variants(lz2[lj])[0](lz2[lj].v)
					if !roundTrip(c, name, mk, z, fmt.Sprintf("%s=%s & %s=%s", ls[li].path, w1, ls[lj].path, w2)) {
						return false
					}
				}
			}
		}
		// field influence: at least one value of the field's domain must change the encoding
		if nv > 0 && !changed {
			c.run.Violation("field-not-encoded:"+ls[li].path, fmt.Sprintf("%s: no value of field %s changes the encoding: the field is dropped (it is neither encoded nor on the transient allow-list)", name, ls[li].path), map[string]string{"type": name, "field": ls[li].path})
			return false
		}
	}
	return true
}

func firstFrames() string {
	st := string(debug.Stack())
	var out []string
	for _, l := range strings.Split(st, "\n") {
		if strings.Contains(l, "/repo/") {
			out = append(out, strings.TrimSpace(l))
		}
	}
	if len(out) > 6 {
		out = out[:6]
	}
	return strings.Join(out, " <- ")
}

// invariant-constrained fields that are not varied on their own
var skipVariant = map[string]bool{"state.Global.ShardsNum": true, "state.Global.ShardSizes(map)": true, "state.Global.EmptyBlocksByShards(map)": true}

// ---------------------------------------------------------------- signatures

func signedChecks(c *ctxT) bool {
	key := replica.Key(1)
	type signedT struct {
		name    string
		mk      func() interface{}
		sign    func(x interface{})
		signer  func(x interface{}) (common.Address, error)
		sigPath string
	}
	recover := func(h common.Hash, sig []byte) (common.Address, error) {
		pub, err := crypto.Ecrecover(h[:], sig)
		if err != nil {
			return common.Address{}, err
		}
		return crypto.PubKeyBytesToAddress(pub)
	}
	ts := []signedT{
		{"types.Transaction", registry["types.Transaction"], func(x interface{}) {
			tx := x.(*types.Transaction)
			if tx.UseRlp {
				// legacy signing mode (api.SendRawTx): the signature covers the RLP list of the fields
				h := rlp.Hash([]interface{}{tx.AccountNonce, tx.Epoch, tx.Type, tx.To, tx.Amount, tx.MaxFee, tx.Tips, tx.Payload})
				tx.Signature, _ = crypto.Sign(h[:], key)
				return
			}
			s, _ := types.SignTx(tx, key)
			tx.Signature = s.Signature
		}, func(x interface{}) (common.Address, error) {
			tx := x.(*types.Transaction)
			cp := &types.Transaction{AccountNonce: tx.AccountNonce, Epoch: tx.Epoch, Type: tx.Type, To: tx.To, Amount: tx.Amount, MaxFee: tx.MaxFee, Tips: tx.Tips, Payload: tx.Payload, Signature: tx.Signature, UseRlp: tx.UseRlp}
			return types.Sender(cp)
		}, ".Signature"},
		{"types.Vote", registry["types.Vote"], func(x interface{}) {
			v := x.(*types.Vote)
			h := crypto.SignatureHash(v)
			v.Signature, _ = crypto.Sign(h[:], key)
		}, func(x interface{}) (common.Address, error) {
			v := x.(*types.Vote)
			return recover(crypto.SignatureHash(v), v.Signature)
		}, ".Signature"},
		{"types.BlockProposal", registry["types.BlockProposal"], func(x interface{}) {
			p := x.(*types.BlockProposal)
			h := crypto.SignatureHash(p)
			p.Signature, _ = crypto.Sign(h[:], key)
		}, func(x interface{}) (common.Address, error) {
			p := x.(*types.BlockProposal)
			return recover(crypto.SignatureHash(p), p.Signature)
		}, ".Signature"},
		{"types.ProofProposal", registry["types.ProofProposal"], func(x interface{}) {
			p := x.(*types.ProofProposal)
			h := crypto.SignatureHash(p)
			p.Signature, _ = crypto.Sign(h[:], key)
		}, func(x interface{}) (common.Address, error) {
			p := x.(*types.ProofProposal)
			return recover(crypto.SignatureHash(p), p.Signature)
		}, ".Signature"},
		{"types.PublicFlipKey", registry["types.PublicFlipKey"], func(x interface{}) {
			k := x.(*types.PublicFlipKey)
			s, _ := types.SignFlipKey(k, key)
			k.Signature = s.Signature
		}, func(x interface{}) (common.Address, error) {
			k := x.(*types.PublicFlipKey)
			return types.SenderFlipKey(&types.PublicFlipKey{Key: k.Key, Epoch: k.Epoch, Signature: k.Signature})
		}, ".Signature"},
		{"types.PrivateFlipKeysPackage", registry["types.PrivateFlipKeysPackage"], func(x interface{}) {
			k := x.(*types.PrivateFlipKeysPackage)
			s, _ := types.SignFlipKeysPackage(k, key)
			k.Signature = s.Signature
		}, func(x interface{}) (common.Address, error) {
			k := x.(*types.PrivateFlipKeysPackage)
			return types.SenderFlipKeysPackage(&types.PrivateFlipKeysPackage{Data: k.Data, Epoch: k.Epoch, Signature: k.Signature})
		}, ".Signature"},
	}
	for _, t := range ts {
		x := base(t.mk)
		t.sign(x)
		want, err := t.signer(x)
		if err != nil || want != crypto.PubkeyToAddress(key.PublicKey) {
			c.run.Violation("signature-does-not-recover:"+t.name, fmt.Sprintf("%s: a freshly signed object does not recover its signer (%v)", t.name, err), nil)
			return false
		}
		var ls []leaf
		leaves(reflect.ValueOf(x).Elem(), t.name, &ls, 0)
		for li := range ls {
			if strings.HasSuffix(ls[li].path, t.sigPath) || strings.Contains(ls[li].path, "(len)") && strings.Contains(ls[li].path, "Signature") {
				continue
			}
			nv := len(variants(ls[li]))
			bound := false
			for vi := 0; vi < nv; vi++ {
				y := base(t.mk)
				t.sign(y)
				before, _ := y.(codec).ToBytes()
				var ly []leaf
				leaves(reflect.ValueOf(y).Elem(), t.name, &ly, 0)
				val := variants(ly[li])[vi](ly[li].v)
				after, _ := y.(codec).ToBytes()
				if bytes.Equal(before, after) {
					continue // this value equals the base value for the encoding (e.g. nil vs empty): no change to bind
				}
				c.evals++
				got, err := t.signer(y)
				if err == nil && got == want {
					c.run.Violation("signature-does-not-bind:"+ls[li].path, fmt.Sprintf("%s: changing %s to %s leaves the recovered signer unchanged: the field is not covered by the signature", t.name, ls[li].path, val), map[string]string{"type": t.name, "field": ls[li].path})
					return false
				}
				bound = true
			}
			if bound {
				c.run.Add("signed_fields_bound", 1)
			}
		}
	}
	return true
}

// certChecks: a certificate is the stored / gossiped encoding of a set of votes. For every assignment of the per-vote
// signed fields (Upgrade, TurnOffline) to 3 votes of 3 keys, in every order: Compress -> ToBytes -> FromBytes -> ToBytes
// is stable, and the vote rebuilt from each decoded signature the way ValidateBlockCert rebuilds it (common round / step /
// hash of the certificate + the per-signature fields) carries exactly the signed fields of the original vote and
// recovers the original signer.
func certChecks(c *ctxT) bool {
	ups := []uint32{0, 12, 13}
	offs := []bool{false, true}
	parent, voted := common.Hash{0x11}, common.Hash{0x22}
	type pv struct {
		up  uint32
		off bool
	}
	var dom []pv
	for _, u := range ups {
		for _, o := range offs {
			dom = append(dom, pv{u, o})
		}
	}
	n := len(dom)
	for _, nv := range []int{1, 2, 3} {
		total := 1
		for i := 0; i < nv; i++ {
			total *= n
		}
		for code := 0; code < total; code++ {
			var votes []*types.Vote
			var want []common.Address
			x := code
			for i := 0; i < nv; i++ {
				d := dom[x%n]
				x /= n
				k := replica.Key(1 + i)
				v := &types.Vote{Header: &types.VoteHeader{Round: 7, Step: 2, ParentHash: parent, VotedHash: voted, TurnOffline: d.off, Upgrade: d.up}}
				h := crypto.SignatureHash(v)
				v.Signature, _ = crypto.Sign(h[:], k)
				votes = append(votes, v)
				want = append(want, crypto.PubkeyToAddress(k.PublicKey))
			}
			c.evals++
			c.run.Add("vote_sets_compressed", 1)
			cert := (&types.FullBlockCert{Votes: votes}).Compress()
			b1, err := cert.ToBytes()
			if err != nil {
				c.run.Violation("cert-of-votes:encode", fmt.Sprintf("certificate of %d votes does not encode: %v", nv, err), nil)
				return false
			}
			dec := new(types.BlockCert)
			if err := dec.FromBytes(b1); err != nil {
				c.run.Violation("cert-of-votes:decode", fmt.Sprintf("certificate of %d votes does not decode: %v", nv, err), nil)
				return false
			}
			if b2, _ := dec.ToBytes(); !bytes.Equal(b1, b2) {
				c.run.Violation("cert-of-votes:reencode", "certificate re-encodes to other bytes", nil)
				return false
			}
			if len(dec.Signatures) != nv {
				c.run.Violation("cert-of-votes:count", fmt.Sprintf("certificate of %d votes decodes to %d signatures", nv, len(dec.Signatures)), nil)
				return false
			}
			for i, sg := range dec.Signatures {
				rb := &types.Vote{Header: &types.VoteHeader{Step: dec.Step, Round: dec.Round, TurnOffline: sg.TurnOffline, Upgrade: sg.Upgrade, VotedHash: dec.VotedHash, ParentHash: parent}, Signature: sg.Signature}
				o := votes[i].Header
				if rb.Header.Round != o.Round || rb.Header.Step != o.Step || rb.Header.VotedHash != o.VotedHash || rb.Header.TurnOffline != o.TurnOffline || rb.Header.Upgrade != o.Upgrade {
					c.run.Violation("cert-of-votes:signed-field-lost", fmt.Sprintf("vote %d of %d (Upgrade=%d TurnOffline=%v): the vote rebuilt from the decoded certificate has Upgrade=%d TurnOffline=%v round=%d step=%d", i, nv, o.Upgrade, o.TurnOffline, rb.Header.Upgrade, rb.Header.TurnOffline, rb.Header.Round, rb.Header.Step), map[string]interface{}{"votes": nv, "code": code, "index": i})
					return false
				}
				if got := rb.VoterAddr(); got != want[i] {
					c.run.Violation("cert-of-votes:signer-changes", fmt.Sprintf("vote %d of %d: the vote rebuilt from the decoded certificate recovers %s, signed by %s", i, nv, got.Hex(), want[i].Hex()), map[string]interface{}{"votes": nv, "code": code, "index": i})
					return false
				}
			}
		}
	}
	return true
}

// crossCheck lists receiver types with a ToBytes+FromBytes pair in the anchored packages.
func crossCheck(run *report.Run, all map[string]func() interface{}) {
	dirs := []string{"blockchain/types", "core/state", "core/state/snapshot", "protocol", "blockchain/attachments", "core/flip"}
	found := map[string]int{}
	for _, d := range dirs {
		fs, _ := filepath.Glob(filepath.Join("/repo", d, "*.go"))
		for _, f := range fs {
			if strings.HasSuffix(f, "_test.go") {
				continue
			}
			fset := token.NewFileSet()
			af, err := parser.ParseFile(fset, f, nil, 0)
			if err != nil {
				continue
			}
			for _, dcl := range af.Decls {
				fd, ok := dcl.(*ast.FuncDecl)
				if !ok || fd.Recv == nil || (fd.Name.Name != "ToBytes" && fd.Name.Name != "FromBytes") {
					continue
				}
				var tn string
				switch t := fd.Recv.List[0].Type.(type) {
				case *ast.StarExpr:
					if id, ok := t.X.(*ast.Ident); ok {
						tn = id.Name
					}
				case *ast.Ident:
					tn = t.Name
				}
				found[filepath.Base(d)+"."+tn]++
			}
		}
	}
	var missing []string
	for n, cnt := range found {
		if cnt < 2 {
			continue
		}
		if _, ok := all[n]; !ok {
			missing = append(missing, n)
		}
	}
	sort.Strings(missing)
	run.Set("types_with_codec_pair_in_source", len(found))
	if len(missing) > 0 {
		run.Set("types_not_in_registry", missing)
		run.Cap(fmt.Sprintf("%d types with a ToBytes/FromBytes pair are not in the registry: %v", len(missing), missing))
	}
}

func main() {
	run := report.New("C18")
	run.SetBudget(4*60e9, 20*60e9)
	all := map[string]func() interface{}{}
	for k, v := range registry {
		all[k] = v
	}
	for k, v := range protocol.VerifCodecs() {
		all[k] = v
	}
	crossCheck(run, all)
	var names []string
	for n := range all {
		names = append(names, n)
	}
	sort.Strings(names)
	c := &ctxT{run: run}
	for _, n := range names {
		if run.Expired("type enumeration") {
			break
		}
		func() {
			defer func() {
				if p := recover(); p != nil {
					run.Violation("codec-panics:"+n, fmt.Sprintf("%s: encoding/decoding panicked (%s): %v\n%s", n, current, p, firstFrames()), nil)
				}
			}()
			checkType(c, n, all[n], true)
		}()
		run.Add("types_checked", 1)
	}
	signedChecks(c)
	certChecks(c)
	run.Sample(map[string]interface{}{"type": "types.Transaction", "base_object": fmt.Sprintf("%+v", base(registry["types.Transaction"]))[:300]})
	run.Set("evaluations", c.evals)
	run.Set("distinct_nontrivial", run.Get("fields_enumerated"))
	var tr []string
	for k, v := range transient {
		tr = append(tr, k+": "+v)
	}
	sort.Strings(tr)
	run.Set("transient_allow_list", tr)
	run.Assume = append(run.Assume, "documented normalisations: nil<->empty slices/maps, nil<->zero big.Int; time.Time/decimal fields compared through their string form",
		"values between the listed representatives (0, 1, 2, max of the width, empty/1/300-byte strings, 2^200) are outside the bound")
	run.Finish("exploration", "for each of the encodable types (registry cross-checked against every ToBytes/FromBytes pair in the anchored source files) a base object with every field (exported or not, found by reflection) populated with a distinguishing value, then every field x every value of its small domain (thorough: also pairs of fields): decode(encode(x)) == x modulo the documented normalisations, encode(decode(encode(x))) == encode(x), Hash() stable, every field influences the encoding unless on the transient allow-list; for the 6 signed types every non-signature field change changes the recovered signer; certificates as the encoding of vote sets: every assignment of (Upgrade in {0,12,13}) x (TurnOffline) to 1..3 votes -> Compress/encode/decode/re-encode stable and every vote rebuilt from the decoded certificate (as ValidateBlockCert rebuilds it) keeps its signed fields and its signer")
	_ = os.Stdout
}
