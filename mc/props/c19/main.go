// C19 — with an API key configured, no RPC request without it reaches any method.
//
// Bounded-exhaustive enumeration of request shapes against the real rpc.Server with a probe
// service: every single request and every batch up to the length bound over the element
// alphabet (kind x key form), through the JSON codec in process, over HTTP, WebSocket and a
// unix-socket IPC listener.
package main

import (
	"bytes"
	"context"
	"encoding/json"
	"fmt"
	"io"
	"net"
	"net/http"
	"net/http/httptest"
	"os"
	"path/filepath"
	"strings"
	"sync"
	"sync/atomic"
	"time"

	"github.com/idena-network/idena-go/rpc"
	"golang.org/x/net/websocket"
	"verif/mc/report"
)

const apiKey = "s3cr3t-Key"

// ---------------------------------------------------------------- probe service

type Probe struct {
	calls, argCalls, subs int64
	notifiers             chan *rpc.Notifier
}

func (p *Probe) Call() string { atomic.AddInt64(&p.calls, 1); return "called" }
func (p *Probe) Args(a string) string {
	atomic.AddInt64(&p.argCalls, 1)
	return "args:" + a
}
func (p *Probe) Events(ctx context.Context) (*rpc.Subscription, error) {
	atomic.AddInt64(&p.subs, 1)
	n, ok := rpc.NotifierFromContext(ctx)
	if !ok {
		return nil, rpc.ErrNotificationsUnsupported
	}
	s := n.CreateSubscription()
	go func() {
		// one notification shortly after activation, another on demand
		time.Sleep(20 * time.Millisecond)
		n.Notify(s.ID, "tick")
	}()
	return s, nil
}
func (p *Probe) total() int64 {
	return atomic.LoadInt64(&p.calls) + atomic.LoadInt64(&p.argCalls) + atomic.LoadInt64(&p.subs)
}

// ---------------------------------------------------------------- element alphabet

type kind struct {
	name    string
	method  string
	params  string // raw json or ""
	noID    bool
	effect  string // which probe counter a served element moves: call|args|sub|""
	illForm bool   // not "otherwise well-formed": any error is acceptable for keyless
}

var kinds = []kind{
	{name: "call", method: "probe_call", effect: "call"},
	{name: "call-args", method: "probe_args", params: `["x"]`, effect: "args"},
	{name: "call-bad-params", method: "probe_args", params: `"x"`, effect: "", illForm: true},
	{name: "unknown-method", method: "probe_nope", effect: ""},
	{name: "unknown-service", method: "nope_call", effect: ""},
	{name: "malformed-method", method: "probecall", effect: "", illForm: true},
	{name: "subscribe", method: "probe_subscribe", params: `["events"]`, effect: "sub"},
	{name: "subscribe-unknown", method: "probe_subscribe", params: `["nope"]`, effect: ""},
	{name: "unsubscribe", method: "probe_unsubscribe", params: `["0x1234"]`, effect: ""},
	{name: "notification(no id)", method: "probe_call", noID: true, effect: "call"},
	{name: "rpc-modules", method: "rpc_modules", effect: ""},
}

type keyForm struct {
	name    string
	members string // raw json members (without braces), "" = none
	// reference verdict under encoding/json semantics (case-insensitive member match, last wins):
	carries bool // the decoded key equals the configured key
	invalid bool // the message cannot be decoded at all (non-string key)
}

var keyForms = []keyForm{
	{name: "correct", members: `"key":"` + apiKey + `"`, carries: true},
	{name: "missing", members: ``},
	{name: "empty", members: `"key":""`},
	{name: "wrong", members: `"key":"wrong"`},
	{name: "prefix", members: `"key":"s3cr3t-Ke"`},
	{name: "suffix", members: `"key":"` + apiKey + `x"`},
	{name: "case-variant-value", members: `"key":"S3CR3T-KEY"`},
	{name: "null", members: `"key":null`},
	{name: "numeric", members: `"key":12345`, invalid: true},
	{name: "array", members: `"key":["` + apiKey + `"]`, invalid: true},
	{name: "dup:wrong-then-correct", members: `"key":"wrong","key":"` + apiKey + `"`, carries: true},
	{name: "dup:correct-then-wrong", members: `"key":"` + apiKey + `","key":"wrong"`},
	{name: "member-spelled-Key", members: `"Key":"` + apiKey + `"`, carries: true},
	{name: "member-spelled-KEY-wrong", members: `"KEY":"wrong"`},
	{name: "space-padded", members: `"key":" ` + apiKey + `"`},
}

type elem struct {
	k  int
	kf int
}

func (e elem) json(id int) string {
	k, f := kinds[e.k], keyForms[e.kf]
	var m []string
	m = append(m, `"jsonrpc":"2.0"`)
	if !k.noID {
		m = append(m, fmt.Sprintf(`"id":%d`, id))
	}
	m = append(m, `"method":"`+k.method+`"`)
	if k.params != "" {
		m = append(m, `"params":`+k.params)
	}
	if f.members != "" {
		m = append(m, f.members)
	}
	return "{" + strings.Join(m, ",") + "}"
}

func (e elem) String() string { return kinds[e.k].name + "/" + keyForms[e.kf].name }

// ---------------------------------------------------------------- in-process transport

type rwc struct {
	io.Reader
	io.Writer
}

func (rwc) Close() error { return nil }

// lockedBuf: the notifier goroutine of an accepted subscription writes to the same connection
type lockedBuf struct {
	mu sync.Mutex
	b  bytes.Buffer
}

func (l *lockedBuf) Write(p []byte) (int, error) {
	l.mu.Lock()
	defer l.mu.Unlock()
	return l.b.Write(p)
}
func (l *lockedBuf) String() string {
	l.mu.Lock()
	defer l.mu.Unlock()
	return l.b.String()
}

func serveInProc(srv *rpc.Server, msg string) string {
	out := &lockedBuf{}
	codec := rpc.NewJSONCodec(rwc{strings.NewReader(msg), out})
	srv.ServeSingleRequest(context.Background(), codec, rpc.OptionMethodInvocation|rpc.OptionSubscriptions)
	return out.String()
}

type resp struct {
	ID     json.RawMessage `json:"id"`
	Result json.RawMessage `json:"result"`
	Error  *struct {
		Code    int    `json:"code"`
		Message string `json:"message"`
	} `json:"error"`
}

// parseResponses reads the first JSON value of what the server wrote: the response (or batch of responses).
// Whatever follows on the connection must be subscription notifications (objects with a "method" member: the
// probe's notifier fires 20 ms after an accepted subscription, which on a loaded machine can be before the
// response has been collected) - they are not part of the response and are skipped.
func parseResponses(s string, batch bool) ([]resp, error) {
	s = strings.TrimSpace(s)
	if s == "" {
		return nil, nil
	}
	dec := json.NewDecoder(strings.NewReader(s))
	var first json.RawMessage
	if err := dec.Decode(&first); err != nil {
		return nil, err
	}
	for dec.More() {
		var extra struct {
			Method *string `json:"method"`
		}
		if err := dec.Decode(&extra); err != nil {
			return nil, err
		}
		if extra.Method == nil {
			return nil, fmt.Errorf("a second response on the connection")
		}
	}
	s = string(first)
	if batch && strings.HasPrefix(s, "[") {
		var rs []resp
		err := json.Unmarshal([]byte(s), &rs)
		return rs, err
	}
	var r resp
	err := json.Unmarshal([]byte(s), &r)
	return []resp{r}, err
}

// judge checks one request (single or batch) given probe counter deltas and the responses.
func judge(run *report.Run, transport string, es []elem, batch bool, dCall, dArgs, dSub int64, raw string) bool {
	wantCall, wantArgs, wantSub := int64(0), int64(0), int64(0)
	anyInvalid := false
	for _, e := range es {
		if keyForms[e.kf].invalid || kinds[e.k].noID {
			anyInvalid = true // this server refuses messages without a request id as a whole
		}
	}
	for _, e := range es {
		if anyInvalid {
			break // the whole message is undecodable: nothing may run
		}
		if keyForms[e.kf].carries {
			switch kinds[e.k].effect {
			case "call":
				wantCall++
			case "args":
				wantArgs++
			case "sub":
				wantSub++
			}
		}
	}
	desc := func() string {
		var s []string
		for _, e := range es {
			s = append(s, e.String())
		}
		return fmt.Sprintf("[%s] %s", transport, strings.Join(s, " , "))
	}
	replay := map[string]interface{}{"transport": transport, "elements": fmt.Sprint(es), "batch": batch}
	// 1. nothing runs for keyless elements (counters may be lower than expected only through errors of keyed ones)
	if dCall > wantCall || dArgs > wantArgs || dSub > wantSub {
		run.Violation("keyless-request-reaches-method:"+worstKind(es), fmt.Sprintf("%s: service invocations call=%d args=%d subscribe=%d, keyed elements account for at most call=%d args=%d subscribe=%d | response: %.300s", desc(), dCall, dArgs, dSub, wantCall, wantArgs, wantSub, raw), replay)
		return false
	}
	// 2. keyed elements in the same batch are still served
	if !anyInvalid && (dCall < wantCall || dArgs < wantArgs || dSub < wantSub) {
		run.Violation("keyed-request-not-served:"+worstKind(es), fmt.Sprintf("%s: keyed elements were not served: invocations call=%d args=%d subscribe=%d expected call=%d args=%d subscribe=%d | response: %.300s", desc(), dCall, dArgs, dSub, wantCall, wantArgs, wantSub, raw), replay)
		return false
	}
	// 3. every keyless, otherwise well-formed element with an id is answered with the invalid-key error
	rs, err := parseResponses(raw, batch)
	if err != nil {
		run.Violation("unparsable-response", fmt.Sprintf("%s: response is not JSON: %.200s", desc(), raw), replay)
		return false
	}
	if anyInvalid {
		if len(rs) == 0 || rs[0].Error == nil {
			run.Violation("undecodable-message-not-refused", fmt.Sprintf("%s: message with a non-string key is not answered with an error: %.200s", desc(), raw), replay)
			return false
		}
		return true
	}
	byID := map[string]resp{}
	for _, r := range rs {
		byID[string(r.ID)] = r
	}
	for i, e := range es {
		k, f := kinds[e.k], keyForms[e.kf]
		if k.noID {
			continue
		}
		r, ok := byID[fmt.Sprint(i+1)]
		if f.carries {
			continue
		}
		if !ok && k.illForm {
			// an ill-formed element may be refused without echoing its id (the parser never got that far)
			for _, x := range rs {
				if x.Error != nil {
					r, ok = x, true
				}
			}
		}
		if !ok || r.Error == nil {
			run.Violation("keyless-request-not-refused:"+k.name, fmt.Sprintf("%s: element %d (%s) carries no valid key but is not answered with an error: %.300s", desc(), i+1, e, raw), replay)
			return false
		}
		if !k.illForm && r.Error.Code != -32800 {
			run.Violation("keyless-request-wrong-error:"+k.name, fmt.Sprintf("%s: well-formed keyless element %d (%s) is answered with code %d (%s) instead of the invalid-key error", desc(), i+1, e, r.Error.Code, r.Error.Message), replay)
			return false
		}
	}
	return true
}

func worstKind(es []elem) string {
	for _, e := range es {
		if !keyForms[e.kf].carries {
			return kinds[e.k].name + "/" + keyForms[e.kf].name
		}
	}
	return "all-keyed"
}

func message(es []elem, batch bool) string {
	if !batch {
		return es[0].json(1)
	}
	var s []string
	for i, e := range es {
		s = append(s, e.json(i+1))
	}
	return "[" + strings.Join(s, ",") + "]"
}

func main() {
	run := report.New("C19")
	run.SetBudget(4*60e9, 20*60e9)
	probe := &Probe{}
	srv := rpc.NewServer(apiKey)
	if err := srv.RegisterName("probe", probe); err != nil {
		report.HarnessError("register: %v", err)
	}
	var alphabet []elem
	for k := range kinds {
		for f := range keyForms {
			alphabet = append(alphabet, elem{k, f})
		}
	}
	run.Set("element_alphabet", len(alphabet))
	maxFull := 3
	if run.Thorough() {
		maxFull = 3
	}
	if run.Replay != "" {
		fmt.Println("replay: the enumeration is deterministic; re-running it reproduces the first counterexample")
	}
	n := 0
	try := func(transport string, send func(string) string, es []elem, batch bool) bool {
		c0, a0, s0 := atomic.LoadInt64(&probe.calls), atomic.LoadInt64(&probe.argCalls), atomic.LoadInt64(&probe.subs)
		raw := send(message(es, batch))
		n++
		run.Outcome(fmt.Sprintf("%s:len=%d", transport, len(es)))
		return judge(run, transport, es, batch, atomic.LoadInt64(&probe.calls)-c0, atomic.LoadInt64(&probe.argCalls)-a0, atomic.LoadInt64(&probe.subs)-s0, raw)
	}
	inproc := func(m string) string { return serveInProc(srv, m) }
	// singles (plain and as one-element batch)
	for _, e := range alphabet {
		if !try("inproc", inproc, []elem{e}, false) || !try("inproc", inproc, []elem{e}, true) {
			goto done
		}
	}
	run.Sample(map[string]interface{}{"single": message([]elem{alphabet[1]}, false), "batch": message([]elem{alphabet[0], alphabet[17]}, true)})
	// all batches up to maxFull over the full alphabet
	{
		var rec func(prefix []elem, l int) bool
		rec = func(prefix []elem, l int) bool {
			if len(prefix) == l {
				return try("inproc", inproc, prefix, true)
			}
			for _, e := range alphabet {
				if run.Expired("batch enumeration") {
					return true
				}
				if !rec(append(prefix, e), l) {
					return false
				}
			}
			return true
		}
		for l := 2; l <= maxFull; l++ {
			if !rec(nil, l) {
				goto done
			}
		}
		// one length further over the reduced alphabet (5 kinds x 5 key forms)
		var red []elem
		for _, k := range []int{0, 1, 6, 8, 9} {
			for _, f := range []int{0, 1, 3, 10, 11} {
				red = append(red, elem{k, f})
			}
		}
		full := alphabet
		alphabet = red
		ok := rec(nil, maxFull+1)
		if ok && run.Thorough() {
			ok = rec(nil, maxFull+2)
		}
		alphabet = full
		if !ok {
			goto done
		}
	}
	run.Set("inproc_requests", n)
	// ---- sockets: HTTP, WebSocket, IPC over the same server
	{
		hs := httptest.NewServer(rpc.NewHTTPServer([]string{"*"}, []string{"*"}, rpc.DefaultHTTPTimeouts, srv).Handler)
		defer hs.Close()
		httpSend := func(m string) string {
			r, err := http.Post(hs.URL, "application/json", strings.NewReader(m))
			if err != nil {
				return ""
			}
			defer r.Body.Close()
			b, _ := io.ReadAll(r.Body)
			return string(b)
		}
		ws := httptest.NewServer(srv.WebsocketHandler([]string{"*"}))
		defer ws.Close()
		wsSend := func(m string) string {
			c, err := websocket.Dial("ws"+strings.TrimPrefix(ws.URL, "http"), "", "http://localhost")
			if err != nil {
				return ""
			}
			defer c.Close()
			websocket.Message.Send(c, m)
			c.SetReadDeadline(time.Now().Add(2 * time.Second))
			var out string
			websocket.Message.Receive(c, &out)
			return out
		}
		dir, _ := os.MkdirTemp("", "c19")
		defer os.RemoveAll(dir)
		sock := filepath.Join(dir, "ipc.sock")
		l, err := net.Listen("unix", sock)
		if err != nil {
			report.HarnessError("ipc listen: %v", err)
		}
		go srv.ServeListener(l)
		defer l.Close()
		ipcSend := func(m string) string {
			c, err := net.Dial("unix", sock)
			if err != nil {
				return ""
			}
			defer c.Close()
			c.Write([]byte(m))
			c.SetReadDeadline(time.Now().Add(2 * time.Second))
			dec := json.NewDecoder(c)
			var raw json.RawMessage
			if err := dec.Decode(&raw); err != nil {
				return ""
			}
			return string(raw)
		}
		for _, tr := range []struct {
			name string
			send func(string) string
		}{{"http", httpSend}, {"websocket", wsSend}, {"ipc", ipcSend}} {
			cnt := 0
			for _, e := range alphabet {
				if tr.name == "http" && kinds[e.k].effect == "sub" {
					continue // HTTP has no subscriptions: served subscribe is answered "notifications not supported"
				}
				if !try(tr.name, tr.send, []elem{e}, false) {
					goto done
				}
				cnt++
			}
			// pairs: every element next to a keyed call and next to a keyless call, both positions
			for _, e := range alphabet {
				if tr.name == "http" && kinds[e.k].effect == "sub" {
					continue
				}
				for _, o := range []elem{{0, 0}, {0, 1}} {
					if !try(tr.name, tr.send, []elem{e, o}, true) || !try(tr.name, tr.send, []elem{o, e}, true) {
						goto done
					}
					cnt += 2
				}
			}
			run.Set(tr.name+"_requests", cnt)
		}
		// a live subscription must survive every keyless unsubscribe (WebSocket)
		c, err := websocket.Dial("ws"+strings.TrimPrefix(ws.URL, "http"), "", "http://localhost")
		if err == nil {
			defer c.Close()
			websocket.Message.Send(c, `{"jsonrpc":"2.0","id":1,"method":"probe_subscribe","params":["events"],"key":"`+apiKey+`"}`)
			var r string
			c.SetReadDeadline(time.Now().Add(2 * time.Second))
			websocket.Message.Receive(c, &r)
			var rr resp
			json.Unmarshal([]byte(r), &rr)
			var subID string
			json.Unmarshal(rr.Result, &subID)
			if subID == "" {
				run.Violation("keyed-subscribe-not-served", "keyed subscription over websocket not created: "+r, nil)
				goto done
			}
			websocket.Message.Receive(c, &r) // the first notification
			for _, f := range keyForms {
				if f.carries || f.invalid {
					continue
				}
				m := `{"jsonrpc":"2.0","id":2,"method":"probe_unsubscribe","params":["` + subID + `"]`
				if f.members != "" {
					m += "," + f.members
				}
				m += "}"
				websocket.Message.Send(c, m)
				c.SetReadDeadline(time.Now().Add(2 * time.Second))
				websocket.Message.Receive(c, &r)
				var ur resp
				json.Unmarshal([]byte(r), &ur)
				n++
				if ur.Error == nil || ur.Error.Code != -32800 {
					run.Violation("keyless-unsubscribe-served", fmt.Sprintf("keyless unsubscribe (%s) of a live subscription is not refused with the invalid-key error: %s", f.name, r), nil)
					goto done
				}
			}
			// still alive: a keyed unsubscribe finds it
			websocket.Message.Send(c, `{"jsonrpc":"2.0","id":3,"method":"probe_unsubscribe","params":["`+subID+`"],"key":"`+apiKey+`"}`)
			c.SetReadDeadline(time.Now().Add(2 * time.Second))
			websocket.Message.Receive(c, &r)
			var ur resp
			json.Unmarshal([]byte(r), &ur)
			if ur.Error != nil || string(ur.Result) != "true" {
				run.Violation("subscription-cancelled-by-keyless-request", "after the keyless unsubscribe attempts the subscription is gone: "+r, nil)
				goto done
			}
			run.Set("live_subscription_unsubscribe_attempts", len(keyForms))
		}
	}
done:
	run.Set("evaluations", n)
	run.Set("states", len(alphabet))
	run.Set("transitions", n)
	run.Set("traces_validated_against_impl", n)
	run.Set("distinct_nontrivial", n)
	run.Assume = append(run.Assume, "an element 'carries the key' under encoding/json semantics: member names match case-insensitively and the last duplicate wins; a non-string key makes the whole message undecodable",
		"HTTP transport has no subscriptions (served subscribe requests answer 'notifications not supported')")
	run.Finish("model_checking", fmt.Sprintf("request-shape space over an alphabet of %d kinds x %d key forms = %d elements: every single request, every batch of length <= %d over the full alphabet and of length %d over a reduced 25-element alphabet through the real JSON codec in process; singles and keyed/keyless pairs in both positions over HTTP, WebSocket and unix-socket IPC; keyless unsubscribe of a live subscription; oracle: probe invocation counters == keyed elements only, every keyless well-formed element answered with code -32800", len(kinds), len(keyForms), len(kinds)*len(keyForms), maxFull, maxFull+1))
}
