// C17 — validation outcomes follow the published rules and depend only on on-chain data.
//
// (a) bounded-exhaustive enumeration of the status decision table (determineNewIdentityState);
// (b) explicit-state search over whole ceremonies on a mini-network: which identities answer,
//     with which answer patterns, in which blocks their transactions arrive; every block is
//     produced by a freshly restarted node (restoreState path), validated by a fresh replica
//     (first evaluation) while the proposer re-evaluates from its cache, and re-applied by a
//     never-restarted node that followed the whole ceremony; outcomes must agree, obey the
//     statement's rules, and be independent of the arrival order of the same transactions.
package main

import (
	"encoding/hex"
	"fmt"
	"math"
	"sort"
	"strings"

	"github.com/idena-network/idena-go/blockchain/types"
	"github.com/idena-network/idena-go/common"
	"github.com/idena-network/idena-go/core/ceremony"
	"github.com/idena-network/idena-go/core/state"
	"github.com/idena-network/idena-go/crypto"
	"verif/mc/chainmc"
	"verif/mc/chainprop"
	"verif/mc/replica"
	"verif/mc/report"
	"verif/mc/world"
)

// ---------------------------------------------------------------- (a) decision table

func f32n(x float32, d int) float32 {
	if d > 0 {
		return math.Nextafter32(x, 2)
	}
	if d < 0 {
		return math.Nextafter32(x, -1)
	}
	return x
}

func decisionTable(run *report.Run) {
	states := []state.IdentityState{state.Undefined, state.Invite, state.Candidate, state.Verified, state.Suspended, state.Killed, state.Zombie, state.Newbie, state.Human}
	around := func(th float32) []float32 { return []float32{f32n(th, -1), th, f32n(th, 1)} }
	shortS := append([]float32{0, 1}, around(common.MinShortScore)...)
	longS := append([]float32{0, 1}, around(common.MinLongScore)...)
	totalS := append(append([]float32{0, 1}, around(common.MinTotalScore)...), around(common.MinHumanTotalScore)...)
	totalFlips := []uint32{0, common.MinFlipsForVerified - 1, common.MinFlipsForVerified, common.MinFlipsForVerified + 1, common.MinFlipsForHuman - 1, common.MinFlipsForHuman, common.MinFlipsForHuman + 1}
	shortQ := []uint32{0, 1, 2, 3, 6}
	bools := []bool{false, true}
	n := 0
	validated := func(s state.IdentityState) bool { return s == state.Newbie || s == state.Verified || s == state.Human }
	results := map[string]int{}
	for _, prev := range states {
		for _, flipsDone := range bools {
			id := state.Identity{State: prev, RequiredFlips: 3}
			if flipsDone {
				id.Flips = []state.IdentityFlip{{Cid: []byte{1}}, {Cid: []byte{2}, Pair: 1}, {Cid: []byte{3}, Pair: 2}}
			}
			for _, missed := range bools {
				for _, nqs := range bools {
					for _, nql := range bools {
						for _, fix := range bools {
							for _, up10 := range bools {
								for _, up12 := range bools {
									for _, sq := range shortQ {
										for _, tf := range totalFlips {
											for _, ss := range shortS {
												for _, ls := range longS {
													for _, ts := range totalS {
														n++
														r := ceremony.VerifDetermineNewIdentityState(id, ss, ls, ts, tf, missed, nqs, nql, fix, up10, sq, up12)
														bad := ""
														switch {
														case (missed || !flipsDone) && validated(r) && prev != state.Undefined:
															bad = "an identity that missed the session or lacked its required flips ends validated"
														case prev == state.Invite && r != state.Killed:
															bad = "an invitation that was not activated is not terminated"
														case prev == state.Killed && r != state.Killed:
															bad = "a terminated identity comes back"
														case prev == state.Undefined && r != state.Undefined && r != state.Killed:
															bad = "an undefined identity comes back with a live status"
														}
														if bad == "" {
															if r2 := ceremony.VerifDetermineNewIdentityState(id, ss, ls, ts, tf, missed, nqs, nql, fix, up10, sq, up12); r2 != r {
																bad = "the decision is not a function of its arguments"
															}
														}
														if bad != "" {
															run.Violation(fmt.Sprintf("decision-table:prev=%d", prev), fmt.Sprintf("%s: prev=%d flipsDone=%v missed=%v noQualShort=%v nonQualLong=%v fix=%v up10=%v up12=%v shortQualified=%d totalFlips=%d short=%v long=%v total=%v -> %d", bad, prev, flipsDone, missed, nqs, nql, fix, up10, up12, sq, tf, ss, ls, ts, r),
																map[string]interface{}{"part": "a"})
															run.Set("a_decision_tuples", n)
															return
														}
														results[fmt.Sprintf("%d->%d", prev, r)]++
													}
												}
											}
										}
									}
								}
							}
						}
					}
				}
			}
		}
	}
	run.Set("a_decision_tuples", n)
	run.Set("a_distinct_transitions", len(results))
	var ks []string
	for k := range results {
		ks = append(ks, k)
	}
	sort.Strings(ks)
	run.Set("a_status_transitions_seen", ks)
	fmt.Printf("C17(a): %d tuples, %d distinct status transitions\n", n, len(results))
}

// ---------------------------------------------------------------- (b) whole ceremonies

var parts = []string{"V1", "V2", "N1", "C1", "G"}

func partIdx(n string) int {
	for i, a := range world.ActorNames {
		if a == n {
			return i
		}
	}
	panic(n)
}

// answer pattern profile of each participant (fixed per participant so that the hash commits
// to the same answers in every history)
var pattern = map[string]string{"V1": "good", "V2": "good", "N1": "mostly", "C1": "good", "G": "mixed"}

func blocksOf(aux map[string]string) []*types.Block {
	var out []*types.Block
	if aux["blocks"] == "" {
		return nil
	}
	for _, h := range strings.Split(aux["blocks"], ";") {
		b, _ := hex.DecodeString(h)
		blk := new(types.Block)
		if err := blk.FromBytes(b); err != nil {
			panic(err)
		}
		out = append(out, blk)
	}
	return out
}

func outcomeFingerprint(r *replica.Replica) string {
	var sb strings.Builder
	for i := 0; i <= world.NEW2; i++ {
		id := r.App.State.GetIdentity(world.A(i))
		fmt.Fprintf(&sb, "%s:%d/%d/%d/%d/%x/%d;", world.ActorNames[i], id.State, id.Birthday, id.QualifiedFlips, id.ShortFlipPoints, id.Scores, id.RequiredFlips)
	}
	fmt.Fprintf(&sb, "net=%d ep=%d", r.App.ValidatorsCache.NetworkSize(), r.App.State.Epoch())
	return sb.String()
}

func newModel(thorough bool) *chainprop.Model {
	m := &chainprop.Model{Menu: world.Menu()}
	cn, co, cp := chainprop.CeremonyScenario()
	m.Scn, m.Opts, m.Prefix = []string{cn}, []replica.Opts{co}, [][][]string{cp}
	inShort, inLong := []string{" per=2 "}, []string{" per=3 "}
	// phase advance
	m.Acts = append(m.Acts, chainprop.Action{Name: "jump-to-next-phase", Jump: 1, Expand: true, When: []string{" per=0 ", " per=1 ", " per=2 ", " per=3 "}})
	m.Acts = append(m.Acts, chainprop.Action{Name: "plain-block", Expand: true, When: []string{" per=2 ", " per=3 "}})
	subsets := [][]string{{"V1", "V2", "N1", "C1", "G"}, {"V2", "N1"}, {"C1"}, {"V1", "G"}, {"V2", "N1", "C1"}, {"G"}}
	if thorough {
		subsets = append(subsets, []string{"V1"}, []string{"V2"}, []string{"N1"}, []string{"V1", "V2", "N1", "C1"}, []string{"N1", "C1", "G"})
	}
	for _, s := range subsets {
		var hash, reveal, rev2 []string
		for _, p := range s {
			hash = append(hash, "cer:hash:"+p+":"+pattern[p])
			reveal = append(reveal, "cer:short:"+p+":"+pattern[p], "cer:long:"+p+":"+pattern[p])
			rev2 = append(rev2, "cer:long:"+p+":"+pattern[p], "cer:short:"+p+":"+pattern[p])
			if p != "C1" {
				reveal = append(reveal, "cer:evidence:"+p+":all")
				rev2 = append(rev2, "cer:evidence:"+p+":all")
			}
		}
		a := m.Drive(hash...)
		a.Name, a.When = "hashes"+fmt.Sprint(s), inShort
		m.Acts = append(m.Acts, a)
		b := m.Drive(reveal...)
		b.Name, b.When = "reveal"+fmt.Sprint(s), inLong
		m.Acts = append(m.Acts, b)
		c := m.Drive(rev2...)
		c.Name, c.When = "reveal-long-first"+fmt.Sprint(s), inLong
		m.Acts = append(m.Acts, c)
	}
	// a hostile evidence map and a wrong-commitment participant
	ev := m.Drive("cer:evidence:V1:none", "cer:evidence:V2:self")
	ev.Name, ev.When = "evidence(V1:none,V2:self)", inLong
	m.Acts = append(m.Acts, ev)
	wr := m.Drive("cer:short:N1:bad", "cer:long:N1:bad")
	wr.Name, wr.When = "reveal-not-matching-hash[N1]", inLong
	m.Acts = append(m.Acts, wr)
	m.Acts = append(m.Acts, chainprop.Action{Name: "finish-epoch", Macro: "epoch", Expand: true, When: []string{" per=3 "}})

	m.H.Always = true
	m.H.Proposed = func(t *chainprop.Trans) bool {
		c := t.C
		// first evaluation on a fresh validator vs the proposer's own (cached) re-evaluation
		B, err := world.OpenAs(t.Opts, t.St.Img, t.Now, world.X2)
		if err != nil {
			panic(err)
		}
		c.Count("blocks_cross_validated", 1)
		if err := B.Add(t.Block); err != nil {
			c.Violation("fresh-validator-disagrees:"+chainprop.ErrClass(err), fmt.Sprintf("a fresh validator (first evaluation) rejects the block (height %d, flags %d) that the restarted proposer built: %v", t.Block.Height(), t.Block.Header.Flags(), err), nil)
			return false
		}
		// never-restarted node that went through the whole ceremony
		o := t.Opts
		o.Ipfs, o.KeyIdx = world.Net, world.X1
		replica.SetTime(world.T0)
		L, err := replica.New(o, replica.Image(nil).NewDB())
		if err != nil {
			panic(err)
		}
		for _, b := range blocksOf(t.St.Aux) {
			if err := L.Add(b); err != nil {
				c.Violation("never-restarted-node-disagrees-earlier", "a never-restarted node rejects an earlier block: "+err.Error(), nil)
				return false
			}
		}
		if err := L.Add(t.Block); err != nil {
			c.Violation("never-restarted-node-disagrees:"+chainprop.ErrClass(err), fmt.Sprintf("a node that followed the whole ceremony without restart rejects the block (height %d, flags %d) built by a node restarted before every block: %v", t.Block.Height(), t.Block.Header.Flags(), err), nil)
			return false
		}
		if L.App.State.Root() != B.App.State.Root() {
			c.Violation("never-restarted-root-differs", "never-restarted and fresh replica end with different state roots", nil)
			return false
		}
		// the same node evaluating the same height twice (propose = first, validate = cached): a restarted
		// node that proposes and then validates its own proposal
		W, err := world.OpenAs(t.Opts, t.St.Img, t.Now, t.A.Opts.KeyIdx)
		if err != nil {
			panic(err)
		}
		replica.SetTime(t.Now)
		W.Chain.ProposeBlock([]byte{})
		if err := W.Add(t.Block); err != nil {
			c.Violation("cached-reevaluation-disagrees:"+chainprop.ErrClass(err), "a node that evaluated the height once (proposal) rejects the block on re-evaluation: "+err.Error(), nil)
			return false
		}
		return true
	}
	m.H.Inserted = func(t *chainprop.Trans) bool {
		c := t.C
		bb, _ := t.Block.ToBytes()
		if t.St.Aux["blocks"] == "" {
			t.NextAux["blocks"] = hex.EncodeToString(bb)
		} else {
			t.NextAux["blocks"] = t.St.Aux["blocks"] + ";" + hex.EncodeToString(bb)
		}
		// remember which ceremony txs are on the chain (names), for the order-independence oracle
		var names []string
		if t.St.Aux["cer"] != "" {
			names = strings.Split(t.St.Aux["cer"], ",")
		}
		for i, tx := range t.Txs {
			if tx == nil || t.Admit[i] != nil {
				continue
			}
			for _, inc := range t.Block.Body.Transactions {
				if inc.Hash() == tx.Hash() {
					names = append(names, t.M.Menu[t.Act.Tmpl[i]].Name)
				}
			}
		}
		sort.Strings(names)
		t.NextAux["cer"] = strings.Join(names, ",")
		if !t.Block.Header.Flags().HasFlag(types.ValidationFinished) || !c.Check {
			return true
		}
		// ---- the epoch result
		pre := t.PreReplica()
		has := func(p, kind string) bool {
			for _, n := range names {
				if strings.HasPrefix(n, "cer:"+kind+":"+p+":") {
					return true
				}
			}
			return false
		}
		c.Count("epoch_results_checked", 1)
		// a validation in which nobody would be validated "fails": the protocol then leaves every
		// identity as it was (also invitations). The statement's rules are about applied results.
		if pre.App.State.GetIdentity(world.A(world.I1)).State == state.Invite && t.A.App.State.GetIdentity(world.A(world.I1)).State == state.Invite {
			c.Count("failed_validations(statuses kept)", 1)
			c.Outcome("epoch-result:failed-validation")
			t.NextAux["keyx"] = " done"
			return true
		}
		for i := 0; i <= world.NEW2; i++ {
			name := world.ActorNames[i]
			before, after := pre.App.State.GetIdentity(world.A(i)), t.A.App.State.GetIdentity(world.A(i))
			validated := after.State == state.Newbie || after.State == state.Verified || after.State == state.Human
			// "missed" as the protocol can observe it: no short or no long answers on the chain, or not
			// attested by the majority of the on-chain evidence maps (a missing hash tx that a lying
			// majority attests anyway is outside what the rules can see)
			maps, votes := 0, 0
			for _, n := range names {
				if strings.HasPrefix(n, "cer:evidence:") {
					maps++
					f := strings.Split(n, ":")
					if f[3] == "all" || f[3] == "self" && f[2] == name {
						votes++
					}
				}
			}
			answered := has(name, "short") && has(name, "long") && votes >= maps/2+1
			switch {
			case before.State == state.Undefined && after.State != state.Undefined:
				c.Violation("undefined-gets-status", fmt.Sprintf("%s was Undefined and is %d after the validation", name, after.State), nil)
				return false
			case before.State == state.Killed && after.State != state.Killed && after.State != state.Undefined:
				c.Violation("killed-comes-back", fmt.Sprintf("%s was Killed and is %d after the validation", name, after.State), nil)
				return false
			case before.State == state.Invite && after.State != state.Killed && after.State != state.Undefined:
				c.Violation("invite-survives", fmt.Sprintf("%s held an un-activated invitation and is %d after the validation", name, after.State), nil)
				return false
			case before.State != state.Undefined && !answered && validated:
				c.Violation("missed-but-validated", fmt.Sprintf("%s (status %d) has no short+long answers on the chain or no evidence majority but is validated (%d) afterwards", name, before.State, after.State), nil)
				return false
			case before.State != state.Undefined && !before.HasDoneAllRequiredFlips() && validated:
				c.Violation("no-required-flips-but-validated", fmt.Sprintf("%s lacked required flips but is validated (%d) afterwards", name, after.State), nil)
				return false
			}
		}
		fp := crypto.Keccak256Hash([]byte(outcomeFingerprint(t.A))).Hex()[:14]
		txset := crypto.Keccak256Hash([]byte(t.NextAux["cer"])).Hex()[:14]
		c.Count("fp|"+txset+"|"+fp, 1)
		c.Outcome("epoch-result:" + fp)
		c.Sample(map[string]interface{}{"trace": c.Labels(), "ceremony_txs": len(names), "outcome": outcomeFingerprint(t.A)})
		t.NextAux["keyx"] = " done"
		return true
	}
	return m
}

// ---------------------------------------------------------------- (c) evidence is counted per shard

// shardedEvidence: ceremonies with one or two shards driven through the real ApplyNewEpoch. Every candidate is a
// Verified identity without required flips that answered both sessions, so its new status is decided by the evidence
// alone: it stays Verified iff a majority (n/2+1) of the evidence maps sent by candidates of ITS OWN shard approve
// it, otherwise it missed the short session and is Suspended. Enumerated: every assignment of 5 evidence masks to
// the 3 candidates of shard 1 x 9 shapes of the other shard (absent, 2 or 4 candidates, 4 uniform masks).
func shardedEvidence(run *report.Run) {
	dom1 := []int{-1, 7, 6, 1, 0}
	type other struct {
		size, mask int
	}
	others := []other{{0, 0}}
	for _, sz := range []int{2, 4} {
		for _, mk := range []int{-1, (1 << uint(sz)) - 1, 1, 0} {
			others = append(others, other{sz, mk})
		}
	}
	for _, ot := range others {
		for code := 0; code < 125; code++ {
			m1 := []int{dom1[code%5], dom1[code/5%5], dom1[code/25]}
			sizes := []int{3}
			masks := [][]int{m1}
			if ot.size > 0 {
				sizes = append(sizes, ot.size)
				var m2 []int
				for i := 0; i < ot.size; i++ {
					m2 = append(m2, ot.mask)
				}
				masks = append(masks, m2)
			}
			failed, st := ceremony.VerifShardedEpoch(sizes, masks)
			run.Add("c_sharded_epochs", 1)
			if failed {
				run.Add("c_sharded_epochs_failed_as_a_whole", 1)
				continue
			}
			for s := range sizes {
				n := 0
				for _, mk := range masks[s] {
					if mk >= 0 {
						n++
					}
				}
				for i := 0; i < sizes[s]; i++ {
					score := 0
					for _, mk := range masks[s] {
						if mk >= 0 && mk&(1<<uint(i)) != 0 {
							score++
						}
					}
					want := state.Suspended
					if score >= n/2+1 {
						want = state.Verified
					}
					run.Add("c_outcomes_judged", 1)
					if st[s][i] != want {
						run.Violation("evidence-not-counted-per-shard", fmt.Sprintf("shards %v, evidence masks %v: candidate %d of shard %d is approved by %d of the %d evidence maps of its own shard, so it must become %d, but the epoch result is %d", sizes, masks, i, s+1, score, n, want, st[s][i]), map[string]interface{}{"sizes": sizes, "masks": masks})
						return
					}
				}
			}
		}
	}
}

func main() {
	run := report.New("C17")
	m := newModel(run.Thorough())
	if chainmc.IsWorker() {
		chainmc.WorkerMain(m)
		return
	}
	if run.Replay != "" {
		chainmc.ReplayFile(run, m)
		return
	}
	run.SetBudget(7*60e9, 20*60e9)
	decisionTable(run)
	shardedEvidence(run)
	depth := 7
	if run.Thorough() {
		depth = 9
	}
	chainmc.Explore(run, m, chainmc.Config{Depth: depth, Chunk: 2})
	// order independence: one outcome per set of ceremony transactions
	bySet := map[string][]string{}
	for k := range run.Cov {
		if strings.HasPrefix(k, "fp|") {
			p := strings.Split(k, "|")
			bySet[p[1]] = append(bySet[p[1]], p[2])
		}
	}
	multi := 0
	for set, fps := range bySet {
		if len(fps) > 1 {
			multi++
			sort.Strings(fps)
			run.Violation("outcome-depends-on-arrival-order", fmt.Sprintf("the same set of ceremony transactions (%s) produced %d different epoch results (%v) depending on the blocks they arrived in", set, len(fps), fps), nil)
		}
	}
	for k := range run.Cov {
		if strings.HasPrefix(k, "fp|") {
			delete(run.Cov, k)
		}
	}
	run.Set("b_distinct_ceremony_tx_sets", len(bySet))
	run.Set("evaluations", run.Get("a_decision_tuples")+run.Get("blocks_cross_validated")+run.Get("c_sharded_epochs"))
	run.Set("distinct_nontrivial", run.Get("states"))
	run.Assume = append(run.Assume, "answers are built with the repository's attachment encoders from fixed per-participant patterns (truth = Left); flips are three god-authored flips in one shard",
		"map-order deviations on the epoch block are enumerated by C01 on the same driver")
	run.Finish("model_checking", "(a) full product of the status decision table over 9 prior states x flips done x missed x noQualShort x nonQualLong x 3 upgrade flags x 5 short-qualified counts x 7 total-flip boundaries x float32 neighbours of every score threshold (invariants of the statement + functionality). (b) BFS over whole ceremonies on a 5-participant network: every split of hash submissions and of short/long/evidence reveals (6 subsets, 2 intra-block orders, hostile evidence, non-matching reveal) over the short and long session blocks, then the blocks to the epoch end; every block built by a freshly restarted node, cross-validated by a fresh replica (first evaluation), by a never-restarted node that followed everything, and by a node re-evaluating after having proposed; rule invariants on every epoch result; one outcome per set of on-chain ceremony txs. (c) the real ApplyNewEpoch over one- and two-shard ceremonies: 5^3 evidence-mask assignments of a 3-candidate shard x 9 shapes of the other shard; every candidate's result must follow the majority of the evidence maps of its own shard only")
}
