// C13 — speculative and historical state views are isolated and exact.
//
// Part (a), decided here by explicit-state search: the copy-on-write store
// database.BackedMemDb behaves like an ordinary store pre-loaded with the base data.
// The state space of the real object over a small key/value alphabet is CLOSED and is
// explored completely (breadth first, every mutating operation from every reachable
// state), not merely to a depth; every read operation is evaluated in every state and
// compared with a plain MemDB driven by the same operations.
// Parts (b)/(c) (chain-level isolation and historical views) live in chain.go.
package main

import (
	"bytes"
	"fmt"
	"sort"
	"strings"

	"github.com/idena-network/idena-go/database"
	dbm "github.com/tendermint/tm-db"
	"verif/mc/chainmc"
	"verif/mc/report"
)

type op struct {
	Kind string   `json:"kind"` // set setsync del delsync batch batchsync batchclose
	K    string   `json:"k,omitempty"`
	V    *string  `json:"v,omitempty"`
	Sub  []op     `json:"sub,omitempty"` // batch members (kind set/del)
}

func (o op) String() string {
	switch o.Kind {
	case "set", "setsync":
		return fmt.Sprintf("%s(%q,%s)", o.Kind, o.K, vs(o.V))
	case "del", "delsync":
		return fmt.Sprintf("%s(%q)", o.Kind, o.K)
	}
	var s []string
	for _, x := range o.Sub {
		s = append(s, x.String())
	}
	return o.Kind + "[" + strings.Join(s, ",") + "]"
}

func vs(v *string) string {
	if v == nil {
		return "nil"
	}
	return fmt.Sprintf("%q", *v)
}

func kb(k string) []byte {
	if k == "<nil>" {
		return nil
	}
	return []byte(k)
}
func vb(v *string) []byte {
	if v == nil {
		return nil
	}
	return []byte(*v)
}

func errs(e error) string {
	if e == nil {
		return "ok"
	}
	return "err:" + e.Error()
}

// apply a mutating op to a DB, returning the observable result
func apply(d dbm.DB, o op) string {
	switch o.Kind {
	case "set":
		return errs(d.Set(kb(o.K), vb(o.V)))
	case "setsync":
		return errs(d.SetSync(kb(o.K), vb(o.V)))
	case "del":
		return errs(d.Delete(kb(o.K)))
	case "delsync":
		return errs(d.DeleteSync(kb(o.K)))
	case "batch", "batchsync", "batchclose", "batchpeek":
		b := d.NewBatch()
		var r []string
		for _, s := range o.Sub {
			if s.Kind == "set" {
				r = append(r, errs(b.Set(kb(s.K), vb(s.V))))
			} else {
				r = append(r, errs(b.Delete(kb(s.K))))
			}
		}
		if o.Kind == "batchpeek" {
			// observations while the batch is still open: nothing queued may be visible or hidden yet
			for _, k := range []string{"a", "b", "c", "d"} {
				r = append(r, doRead(d, read{Kind: "get", K: k}), doRead(d, read{Kind: "has", K: k}))
			}
			r = append(r, doRead(d, read{Kind: "iter", Start: "<nil>", End: "<nil>"}), doRead(d, read{Kind: "riter", Start: "<nil>", End: "<nil>"}))
			r = append(r, errs(b.Write()))
		}
		switch o.Kind {
		case "batch":
			r = append(r, errs(b.Write()))
		case "batchsync":
			r = append(r, errs(b.WriteSync()))
		}
		r = append(r, errs(b.Close()))
		return strings.Join(r, ",")
	}
	panic("bad op")
}

type read struct {
	Kind       string // get has iter riter
	K          string
	Start, End string // "<nil>" = nil bound
}

func (r read) String() string {
	if r.Kind == "get" || r.Kind == "has" {
		return fmt.Sprintf("%s(%q)", r.Kind, r.K)
	}
	return fmt.Sprintf("%s(%s,%s)", r.Kind, r.Start, r.End)
}

func doRead(d dbm.DB, r read) (res string) {
	defer func() {
		if p := recover(); p != nil {
			res = fmt.Sprintf("panic:%v", p)
		}
	}()
	switch r.Kind {
	case "get":
		v, err := d.Get(kb(r.K))
		if v == nil {
			return "nil," + errs(err)
		}
		return fmt.Sprintf("%q,%s", v, errs(err))
	case "has":
		v, err := d.Has(kb(r.K))
		return fmt.Sprintf("%v,%s", v, errs(err))
	}
	var it dbm.Iterator
	var err error
	if r.Kind == "iter" {
		it, err = d.Iterator(kb(r.Start), kb(r.End))
	} else {
		it, err = d.ReverseIterator(kb(r.Start), kb(r.End))
	}
	if err != nil {
		return errs(err)
	}
	var sb strings.Builder
	n := 0
	for ; it.Valid(); it.Next() {
		fmt.Fprintf(&sb, "%q=%q;", it.Key(), it.Value())
		n++
		if n > 64 {
			sb.WriteString("RUNAWAY")
			break
		}
	}
	s, e := it.Domain()
	fmt.Fprintf(&sb, "|dom=%q,%q|%s|%s", s, e, errs(it.Error()), errs(it.Close()))
	return sb.String()
}

func dump(d dbm.DB) string {
	it, err := d.Iterator(nil, nil)
	if err != nil {
		return errs(err)
	}
	defer it.Close()
	var sb strings.Builder
	for ; it.Valid(); it.Next() {
		fmt.Fprintf(&sb, "%q=%q;", it.Key(), it.Value())
	}
	return sb.String()
}

type bworld struct {
	base    map[string]string
	perm    *dbm.MemDB
	backed  *database.BackedMemDb
	ref     *dbm.MemDB
	permRef string
}

func newWorld(base map[string]string) *bworld {
	w := &bworld{base: base, perm: dbm.NewMemDB(), ref: dbm.NewMemDB()}
	for k, v := range base {
		w.perm.Set([]byte(k), []byte(v))
		w.ref.Set([]byte(k), []byte(v))
	}
	w.backed = database.NewBackedMemDb(w.perm)
	w.permRef = dump(w.perm)
	return w
}

func (w *bworld) stateKey() string {
	return dump(w.backed.VerifInner()) + "#" + strings.Join(w.backed.VerifTouched(), ",")
}

func main() {
	run := report.New("C13")
	if chainmc.IsWorker() {
		chainmc.WorkerMain(chainModel(run.Thorough()))
		return
	}
	run.SetBudget(6*60e9, 20*60e9)
	if run.Replay != "" {
		replayFile(run)
		return
	}
	checkBacked(run)
	chainPart(run)
	run.Assume = append(run.Assume,
		"part (a): keys/values outside the listed alphabet behave like those inside it (the store never inspects key bytes beyond ordering/equality)",
		"part (a): reads are evaluated in every reachable state; their purity is itself checked (state key before == after each read sweep)")
	run.Finish("model_checking", "part (a): BFS over the closed reachable state space of the real BackedMemDb (state = inner store content + touched set) for every base content over the key alphabet; every mutating op is a transition from every state; every read op (Get/Has/Iterator/ReverseIterator over all bound pairs) is compared with a reference MemDB in every state; non-trivial = state with at least one touched key. parts (b),(c): see chain_* keys")
}

func checkBacked(run *report.Run) {
	keys := []string{"a", "b", "c"}
	if run.Thorough() {
		keys = []string{"a", "b", "c", "d"}
	}
	x, y, e := "x", "y", ""
	vals := []*string{&x, &e, nil}
	if run.Thorough() {
		vals = []*string{&x, &y, &e, nil}
	}
	// mutating ops
	var muts []op
	wkeys := append([]string{}, keys...)
	wkeys = append(wkeys, "", "<nil>") // empty / nil key: error paths must agree too
	for _, k := range wkeys {
		for _, v := range vals {
			muts = append(muts, op{Kind: "set", K: k, V: v})
		}
		muts = append(muts, op{Kind: "del", K: k})
	}
	for _, k := range keys[:2] {
		muts = append(muts, op{Kind: "setsync", K: k, V: &x}, op{Kind: "delsync", K: k})
	}
	// batches: all ordered pairs of members over (set x / set "" / del) x keys
	var members []op
	for _, k := range keys {
		members = append(members, op{Kind: "set", K: k, V: &x}, op{Kind: "set", K: k, V: &e}, op{Kind: "del", K: k})
	}
	members = append(members, op{Kind: "set", K: "a", V: nil}, op{Kind: "set", K: "", V: &x}, op{Kind: "del", K: "<nil>"})
	for _, m := range members {
		muts = append(muts, op{Kind: "batch", Sub: []op{m}})
	}
	for _, m1 := range members {
		for _, m2 := range members {
			muts = append(muts, op{Kind: "batch", Sub: []op{m1, m2}})
		}
	}
	for _, m1 := range members {
		muts = append(muts, op{Kind: "batchpeek", Sub: []op{m1}})
	}
	muts = append(muts, op{Kind: "batchpeek", Sub: []op{members[0], members[5]}}, op{Kind: "batchpeek", Sub: []op{members[2], members[3]}})
	muts = append(muts, op{Kind: "batchsync", Sub: []op{members[0], members[5]}},
		op{Kind: "batchclose", Sub: []op{members[0], members[2]}}, op{Kind: "batch"})
	// reads
	var reads []read
	rkeys := append([]string{}, keys...)
	rkeys = append(rkeys, "0", "bb", "zz") // before / between / after
	for _, k := range append(rkeys, "", "<nil>") {
		reads = append(reads, read{Kind: "get", K: k}, read{Kind: "has", K: k})
	}
	bounds := append([]string{"<nil>", ""}, rkeys...)
	for _, s := range bounds {
		for _, en := range bounds {
			reads = append(reads, read{Kind: "iter", Start: s, End: en}, read{Kind: "riter", Start: s, End: en})
		}
	}
	run.Set("a_mutating_ops", len(muts))
	run.Set("a_read_ops", len(reads))

	// base contents: every subset of keys, values "p" or "" per key
	var bases []map[string]string
	n := len(keys)
	pow3 := 1
	for i := 0; i < n; i++ {
		pow3 *= 3
	}
	for m := 0; m < pow3; m++ {
		b := map[string]string{}
		mm := m
		for i := 0; i < n; i++ {
			switch mm % 3 {
			case 1:
				b[keys[i]] = "p"
			case 2:
				b[keys[i]] = ""
			}
			mm /= 3
		}
		bases = append(bases, b)
	}
	run.Set("a_bases", len(bases))

	states, transitions, evals, nontrivial := 0, 0, 0, 0
	for bi, base := range bases {
		// BFS: a state is reached by replaying its shortest op path on a fresh world
		type node struct{ path []op }
		seen := map[string]bool{}
		w0 := newWorld(base)
		seen[w0.stateKey()] = true
		frontier := []node{{}}
		build := func(path []op) *bworld {
			w := newWorld(base)
			for _, o := range path {
				apply(w.backed, o)
				apply(w.ref, o)
			}
			return w
		}
		sweep := func(w *bworld, path []op) bool {
			before := w.stateKey()
			for _, r := range reads {
				got, want := doRead(w.backed, r), doRead(w.ref, r)
				evals++
				run.Outcome(classify(want))
				if got != want {
					key := fmt.Sprintf("backedmemdb:%s", r.Kind)
					run.Violation(key, fmt.Sprintf("base=%v ops=%v read=%v backed=%s reference=%s", base, path, r, got, want),
						map[string]interface{}{"part": "a", "base": base, "ops": path, "read": r})
					return false
				}
			}
			if after := w.stateKey(); after != before {
				run.Violation("backedmemdb:read-mutates", fmt.Sprintf("base=%v ops=%v reads changed the view state %s -> %s", base, path, before, after),
					map[string]interface{}{"part": "a", "base": base, "ops": path})
				return false
			}
			if d := dump(w.perm); d != w.permRef {
				run.Violation("backedmemdb:base-written", fmt.Sprintf("base=%v ops=%v underlying store changed: %s -> %s", base, path, w.permRef, d),
					map[string]interface{}{"part": "a", "base": base, "ops": path})
				return false
			}
			return true
		}
		if !sweep(w0, nil) {
			return
		}
		states++
		for len(frontier) > 0 {
			nd := frontier[0]
			frontier = frontier[1:]
			for _, m := range muts {
				w := build(nd.path)
				got, want := apply(w.backed, m), apply(w.ref, m)
				transitions++
				path := append(append([]op{}, nd.path...), m)
				if got != want {
					run.Violation("backedmemdb:mut:"+m.Kind, fmt.Sprintf("base=%v ops=%v backed=%s reference=%s", base, path, got, want),
						map[string]interface{}{"part": "a", "base": base, "ops": path})
					return
				}
				k := w.stateKey()
				if seen[k] {
					// still compare the content reached through this other path (differential)
					if dump(w.ref) != viewDump(w) {
						run.Violation("backedmemdb:content", fmt.Sprintf("base=%v ops=%v full view differs from reference", base, path),
							map[string]interface{}{"part": "a", "base": base, "ops": path})
						return
					}
					continue
				}
				seen[k] = true
				states++
				if len(w.backed.VerifTouched()) > 0 {
					nontrivial++
				}
				if !sweep(w, path) {
					return
				}
				if bi == len(bases)-1 && len(path) == 2 {
					run.Sample(map[string]interface{}{"base": base, "ops": fmt.Sprint(path), "state": k})
				}
				frontier = append(frontier, node{path})
			}
		}
	}
	run.Set("states", states)
	run.Set("transitions", transitions)
	run.Set("a_read_evaluations", evals)
	run.Add("evaluations", evals+transitions)
	run.Set("distinct_nontrivial", nontrivial)
	run.Set("traces_validated_against_impl", transitions)
	fmt.Printf("C13(a): bases=%d states=%d transitions=%d read-evaluations=%d\n", len(bases), states, transitions, evals)
}

func viewDump(w *bworld) string { return dump(w.backed) }

func classify(s string) string {
	switch {
	case strings.HasPrefix(s, "err:"):
		return "error"
	case strings.HasPrefix(s, "nil,"):
		return "get-absent"
	case strings.HasPrefix(s, "true") || strings.HasPrefix(s, "false"):
		return "has-" + s[:4]
	case strings.HasPrefix(s, "|dom"):
		return "iter-empty"
	case strings.Contains(s, ";|dom"):
		return fmt.Sprintf("iter-%d", strings.Count(s, ";"))
	}
	return "get-present"
}

var _ = sort.Strings
var _ = bytes.Equal
