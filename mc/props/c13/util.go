package main

import "os"

func readAll(p string) ([]byte, error) { return os.ReadFile(p) }
