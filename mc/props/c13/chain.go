package main

// C13 parts (b) and (c): chain-level isolation of speculative work and exactness of
// historical read-only views, over histories of real block transitions incl. reorgs.

import (
	"bytes"
	"encoding/hex"
	"fmt"
	"strings"

	"github.com/idena-network/idena-go/blockchain/types"
	"github.com/idena-network/idena-go/common"
	"github.com/idena-network/idena-go/core/appstate"
	"github.com/idena-network/idena-go/crypto"
	"github.com/idena-network/idena-go/stats/collector"
	"verif/mc/chainmc"
	"verif/mc/chainprop"
	"verif/mc/replica"
	"verif/mc/report"
	"verif/mc/world"
)

func opsOf(aux map[string]string) []string {
	if aux["ops"] == "" {
		return nil
	}
	return strings.Split(aux["ops"], ";")
}

// viewFingerprint evaluates the getters of a state view for every actor address.
func viewFingerprint(a *appstate.AppState) string {
	var sb strings.Builder
	st := a.State
	fmt.Fprintf(&sb, "epoch=%d period=%d nvt=%d fee=%v god=%x|", st.Epoch(), st.ValidationPeriod(), st.NextValidationTime().Unix(), st.FeePerGas(), st.GodAddress().Bytes()[:4])
	for i := 0; i <= world.NEW2; i++ {
		ad := world.A(i)
		id := st.GetIdentity(ad)
		fmt.Fprintf(&sb, "%d:b=%v s=%v n=%d e=%d st=%d inv=%d fl=%d del=%v pen=%v val=%v onl=%v;", i, st.GetBalance(ad), st.GetStakeBalance(ad), st.GetNonce(ad), st.GetEpoch(ad),
			id.State, id.Invites, len(id.Flips), id.Delegatee(), st.GetPenaltySeconds(ad), a.IdentityState.IsValidated(ad), a.IdentityState.IsOnline(ad))
	}
	if a.ValidatorsCache != nil {
		fmt.Fprintf(&sb, "|net=%d online=%d", a.ValidatorsCache.NetworkSize(), a.ValidatorsCache.OnlineSize())
	}
	return crypto.Keccak256Hash([]byte(sb.String())).Hex()[:18]
}

func canon(r *replica.Replica) string {
	img := world.SharedImage(replica.Snapshot(r.DB))
	return fmt.Sprintf("img=%x root=%x idroot=%x v=%d idv=%d head=%x", img.Hash().Bytes()[:8], r.App.State.Root().Bytes()[:8], r.App.IdentityState.Root().Bytes()[:8],
		r.App.State.Version(), r.App.IdentityState.Version(), r.Chain.Head.Hash().Bytes()[:8])
}

func chainModel(thorough bool) *chainprop.Model {
	m := &chainprop.Model{Menu: world.Menu()}
	m.Std()
	m.Scn, m.Opts, m.Prefix = m.Scn[1:], m.Opts[1:], m.Prefix[1:]
	add := func(names ...string) { m.Acts = append(m.Acts, m.Drive(names...)) }
	add()
	add("send X1->X2 1", "online V1")
	add("kill V2", "send X2->X1 all")
	add("delegate D1->P", "burn X1 5 key=k")
	add("invite G->NEW", "replenish X1->V1 10")
	m.Acts = append(m.Acts,
		chainprop.Action{Name: "empty-block", Empty: true, Expand: true},
		chainprop.Action{Name: "run-ceremony-to-epoch-end", Macro: "epoch", Expand: true},
	)
	for _, n := range []int{1, 2} {
		for _, alt := range []string{"E", "P", "PE"} {
			n, alt := n, alt
			m.Acts = append(m.Acts, chainprop.Action{Name: fmt.Sprintf("reorg drop=%d continue=%s", n, alt), Expand: true, Custom: func(t *chainprop.Trans) bool {
				head := t.A.Chain.Head.Height()
				if head < uint64(n)+2 || len(opsOf(t.St.Aux)) < n {
					return false
				}
				target := head - uint64(n)
				if _, err := t.A.Chain.ResetTo(target); err != nil {
					return false
				}
				for k := range t.NextAux {
					var h uint64
					if _, err := fmt.Sscanf(k, "rec:%d", &h); err == nil && h > target {
						delete(t.NextAux, k)
					}
				}
				ops := t.St.Aux["ops"] + fmt.Sprintf(";R:%d", target)
				now := t.A.Chain.Head.Time()
				for i := 0; i < len(alt); i++ {
					now += 21
					var blk *types.Block
					if alt[i] == 'E' {
						blk = t.A.Empty()
					} else {
						r, err := world.Open(t.Opts, replica.Snapshot(t.A.DB), now)
						if err != nil {
							return false
						}
						t.A = r
						blk = t.A.Propose(now)
					}
					if err := t.A.Add(blk); err != nil {
						return false
					}
					bb, _ := blk.ToBytes()
					ops += ";B:" + hex.EncodeToString(bb)
					t.NextAux[fmt.Sprintf("rec:%d", blk.Height())] = viewFingerprint(t.A.App)
				}
				if now > t.Now {
					t.Now = now
				}
				t.NextAux["ops"] = ops
				t.NextAux["keyx"] = fmt.Sprintf(" reorged-at=%d", target)
				if t.C.Check {
					t.C.Count("reorg_transitions", 1)
					return historical(t)
				}
				return true
			}})
		}
	}
	m.H.Always = true
	// (b) speculative work must not change the canonical state
	m.H.Proposed = func(t *chainprop.Trans) bool {
		c, A := t.C, t.A
		before := canon(A)
		spec := func(name string, f func()) bool {
			f()
			c.Count("speculative_calls", 1)
			if after := canon(A); after != before {
				c.Violation("speculative-call-changes-canonical:"+name, fmt.Sprintf("%s changed the canonical state/database: %s -> %s", name, before, after), nil)
				return false
			}
			return true
		}
		h := A.Chain.Head.Height()
		ok := spec("ProposeBlock", func() { A.Chain.ProposeBlock([]byte{}) }) &&
			spec("ValidateBlock(good)", func() { A.Chain.ValidateBlock(t.Block, nil, collector.NewStatsCollector()) }) &&
			spec("ValidateBlock(tampered root)", func() {
				if t.Block.Header.ProposedHeader != nil {
					cp := *t.Block.Header.ProposedHeader
					cp.Root = common.Hash{7}
					A.Chain.ValidateBlock(&types.Block{Header: &types.Header{ProposedHeader: &cp}, Body: t.Block.Body}, nil, collector.NewStatsCollector())
				}
			}) &&
			spec("ForCheck+writes", func() {
				if cs, err := A.App.ForCheck(h); err == nil {
					cs.State.SetBalance(world.A(world.X1), replica.Dna(123456))
					cs.IdentityState.SetValidated(world.A(world.Z), true)
					// every kind of pending-write buffer of a view: contract code, contract store, a new account
					cs.State.DeployWasmContract(world.A(world.Z), []byte{0, 0x61, 0x73, 0x6d, 1, 2, 3})
					cs.State.SetContractValue(world.A(world.Z), []byte("k"), []byte("v"))
					cs.State.SetNonce(world.A(world.NEW2), 9)
					cs.State.AddDelayedPenalty(world.A(world.V1))
					cs.State.ToggleStatusSwitchAddress(world.A(world.V2))
					cs.Commit(nil)
				}
			}) &&
			spec("ForCheck+uncommitted writes", func() {
				// the same writes left pending (a proposal that lost is simply dropped)
				if cs, err := A.App.ForCheck(h); err == nil {
					cs.State.DeployWasmContract(world.A(world.NEW), []byte{0, 0x61, 0x73, 0x6d, 9, 9})
					cs.State.SetContractValue(world.A(world.NEW), []byte("k2"), []byte("v2"))
					cs.State.SetBalance(world.A(world.X2), replica.Dna(5))
					cs.IdentityState.SetOnline(world.A(world.V1), true)
				}
			}) &&
			spec("ForCheckWithOverwrite+commit", func() {
				if cs, err := A.App.ForCheckWithOverwrite(h); err == nil {
					cs.State.SetBalance(world.A(world.X2), replica.Dna(7))
					cs.Commit(nil)
				}
				if h > 2 {
					if cs, err := A.App.ForCheckWithOverwrite(h - 1); err == nil {
						cs.State.SetBalance(world.A(world.X2), replica.Dna(8))
						cs.Commit(nil)
					}
				}
			}) &&
			spec("Readonly+reads", func() {
				if ro, err := A.App.Readonly(h); err == nil {
					viewFingerprint(ro)
				}
			}) &&
			spec("ValidateSubChain(refused)", func() {
				if h > 2 {
					A.Chain.ValidateSubChain(h-1, []types.BlockBundle{{Block: t.Block, Cert: nil}})
				}
			}) &&
			spec("WriteSnapshot2", func() { A.App.State.WriteSnapshot2(h, &bytes.Buffer{}) })
		return ok
	}
	m.H.Inserted = func(t *chainprop.Trans) bool {
		bb, _ := t.Block.ToBytes()
		if t.St.Aux["ops"] == "" {
			t.NextAux["ops"] = "B:" + hex.EncodeToString(bb)
		} else {
			t.NextAux["ops"] = t.St.Aux["ops"] + ";B:" + hex.EncodeToString(bb)
		}
		// (c) record what was committed at this height
		t.NextAux[fmt.Sprintf("rec:%d", t.Block.Height())] = viewFingerprint(t.A.App)
		if !t.C.Check {
			return true
		}
		return historical(t)
	}
	return m
}

// historical: every retained height's read-only view must return what was recorded at commit time,
// on the restarted replica and on a never-restarted replica that used Readonly(head) all along.
func historical(t *chainprop.Trans) bool {
	c := t.C
	o := t.Opts
	o.Ipfs = world.Net
	o.KeyIdx = world.X2
	replica.SetTime(world.T0)
	L, err := replica.New(o, replica.Image(nil).NewDB())
	if err != nil {
		panic(err)
	}
	type heldView struct {
		h  uint64
		ro *appstate.AppState
		fp string
	}
	var held []heldView
	for _, op := range opsOf(t.NextAux) {
		if op[0] == 'R' {
			var h uint64
			fmt.Sscan(op[2:], &h)
			if _, err := L.Chain.ResetTo(h); err != nil {
				c.Violation("history-replay-rejected", err.Error(), nil)
				return false
			}
		} else {
			b, _ := hex.DecodeString(op[2:])
			blk := new(types.Block)
			blk.FromBytes(b)
			if err := L.Add(blk); err != nil {
				c.Violation("history-replay-rejected", fmt.Sprintf("block %d: %v", blk.Height(), err), nil)
				return false
			}
		}
		// the node's services (key pool, ceremony, RPC) constantly ask for the head's read-only view - and keep
		// using the one they got while the chain moves on: a view is a snapshot, it must go on showing its height
		if ro, err := L.App.Readonly(L.Chain.Head.Height()); err == nil {
			ro.State.GetBalance(world.A(world.X1))
			held = append(held, heldView{L.Chain.Head.Height(), ro, viewFingerprint(ro)})
		}
	}
	for _, hv := range held {
		c.Count("held_views_rechecked", 1)
		if got := viewFingerprint(hv.ro); got != hv.fp {
			c.Violation("held-view-changes", fmt.Sprintf("a read-only view taken at head %d shows other values after the chain moved on to %d (a view must stay a snapshot of its height)", hv.h, L.Chain.Head.Height()), nil)
			return false
		}
	}
	for _, node := range []struct {
		name string
		r    *replica.Replica
	}{{"restarted", t.A}, {"never-restarted", L}} {
		head := node.r.Chain.Head.Height()
		for h := uint64(2); h <= head; h++ {
			want, ok := t.NextAux[fmt.Sprintf("rec:%d", h)]
			if !ok {
				continue
			}
			ro, err := node.r.App.Readonly(h)
			if err != nil {
				c.Violation("retained-height-unreadable", fmt.Sprintf("%s node: Readonly(%d) fails below head %d: %v", node.name, h, head, err), nil)
				return false
			}
			c.Count("historical_views_compared", 1)
			if got := viewFingerprint(ro); got != want {
				c.Violation("historical-view-differs:"+node.name, fmt.Sprintf("%s node: Readonly(%d) returns values that differ from what was committed at that height (head %d)", node.name, h, head), nil)
				return false
			}
		}
	}
	c.Outcome(fmt.Sprintf("height=%d reorged=%v", t.A.Chain.Head.Height(), strings.Contains(t.NextAux["ops"], "R:")))
	return true
}

func chainPart(run *report.Run) {
	m := chainModel(run.Thorough())
	depth := 4
	if run.Thorough() {
		depth = 5
	}
	// (a) owns states/transitions; keep its numbers and add the chain part under its own keys
	aStates, aTrans := run.Get("states"), run.Get("transitions")
	run.Set("states", 0)
	run.Set("transitions", 0)
	chainmc.Explore(run, m, chainmc.Config{Depth: depth, Chunk: 3})
	run.Set("chain_states", run.Get("states"))
	run.Set("chain_transitions", run.Get("transitions"))
	run.Set("states", aStates+run.Get("chain_states"))
	run.Set("transitions", aTrans+run.Get("chain_transitions"))
	run.Set("traces_validated_against_impl", run.Get("transitions"))
}

func replayFile(run *report.Run) {
	b, _ := readAll(run.Replay)
	if bytes.Contains(b, []byte(`"part": "a"`)) {
		fmt.Println("part (a) replay: re-run ./check C13 (the search is deterministic and complete; it stops at the same first counterexample)")
		checkBacked(run)
		run.Finish("model_checking", "replay of part (a)")
		return
	}
	chainmc.ReplayFile(run, chainModel(run.Thorough()))
}
