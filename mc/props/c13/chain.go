package main

import "verif/mc/report"

func chainPart(run *report.Run)  {}
func replayFile(run *report.Run) {}
