// C04 — no coins from nowhere: no negative balance or stake, issuance is bounded.
//
// Explicit-state search over real block transitions with the "everything that moves
// value" alphabet; after every inserted block the committed ledger is iterated completely.
package main

import (
	"fmt"
	"math/big"

	"github.com/idena-network/idena-go/blockchain/types"
	"verif/mc/chainmc"
	"verif/mc/chainprop"
	"verif/mc/monitors"
	"verif/mc/report"
	"verif/mc/world"
)

func newModel(thorough bool) *chainprop.Model {
	m := &chainprop.Model{Menu: world.Menu()}
	m.Std()
	cn, co, cp := chainprop.CeremonyScenario()
	m.Scn, m.Opts, m.Prefix = append(m.Scn, cn), append(m.Opts, co), append(m.Prefix, cp)
	m.StdDrive()
	m.Acts = append(m.Acts,
		m.FullCeremony("ceremony(all five answer)", []string{"V1", "V2", "N1", "C1", "G"}, []string{"good", "good", "mostly", "good", "mixed"}, []string{"V1", "V2", "N1", "G"}),
		m.FullCeremony("ceremony(V2,N1,C1 answer)", []string{"V2", "N1", "C1"}, []string{"good", "good", "good"}, []string{"V2", "N1"}),
	)
	m.Singles(false)
	m.TipsSingles() // every template once more with tips (tips are paid on top of amount and fee)
	if thorough {
		m.Pairs()
	} else {
		m.PairsUpTo(1)
	}
	m.H.Inserted = func(t *chainprop.Trans) bool {
		c := t.C
		pre := t.PreReplica()
		lp, la := monitors.ReadLedger(pre), monitors.ReadLedger(t.A)
		c.Count("ledgers_summed", 1)
		if n := la.Negative(); n != "" {
			c.Violation("negative:"+n[:8], "negative ledger component after block: "+n, chainprop.TxTypes(t.Block))
			return false
		}
		cons := t.A.Cfg.Consensus
		perBlock := new(big.Int).Add(cons.BlockReward, cons.FinalCommitteeReward)
		bound := new(big.Int)
		kind := "empty"
		if !t.Block.IsEmpty() {
			bound.Add(bound, perBlock)
			kind = "proposed"
		}
		if t.Block.Header.Flags().HasFlag(types.ValidationFinished) {
			epochBlocks := int64(t.Block.Height() - pre.App.State.EpochBlock())
			bound.Add(bound, new(big.Int).Mul(perBlock, big.NewInt(epochBlocks)))
			kind += "+epoch"
		}
		delta := new(big.Int).Sub(la.Total(), lp.Total())
		c.Outcome(fmt.Sprintf("%s txs=%d delta-sign=%d", kind, len(t.Block.Body.Transactions), delta.Sign()))
		if delta.Cmp(bound) > 0 {
			c.Violation("issuance:"+kind, fmt.Sprintf("total of balances+stakes+contract stakes grew by %v on a %s block (bound %v), height %d", delta, kind, bound, t.Block.Height()), chainprop.TxTypes(t.Block))
			return false
		}
		// differential bound: the same block without its transactions must not have a smaller total
		if len(t.Block.Body.Transactions) > 0 {
			C, err := world.OpenAs(t.Opts, t.St.Img, t.Now, t.A.Opts.KeyIdx)
			if err != nil {
				return true
			}
			blk := C.Propose(t.Now)
			if err := C.Add(blk); err == nil && blk.Header.Flags() == t.Block.Header.Flags() {
				lc := monitors.ReadLedger(C)
				c.Count("differential_pairs", 1)
				if la.Total().Cmp(lc.Total()) > 0 {
					c.Violation("tx-mints", fmt.Sprintf("block with txs ends with total %v, the same block without them with %v: transactions increased the total by %v", la.Total(), lc.Total(), new(big.Int).Sub(la.Total(), lc.Total())), chainprop.TxTypes(t.Block))
					return false
				}
			}
			c.Sample(map[string]interface{}{"scenario": t.M.Scn[t.Scn], "trace": c.Labels(), "txs": chainprop.TxTypes(t.Block), "delta": delta.String(), "bound": bound.String()})
		}
		return true
	}
	return m
}

func main() {
	run := report.New("C04")
	m := newModel(run.Thorough())
	if chainmc.IsWorker() {
		chainmc.WorkerMain(m)
		return
	}
	if run.Replay != "" {
		chainmc.ReplayFile(run, m)
		return
	}
	run.SetBudget(6*60e9, 20*60e9)
	depth := 3
	if run.Thorough() {
		depth = 4
	}
	chainmc.Explore(run, m, chainmc.Config{Depth: depth, Chunk: 48})
	run.Set("evaluations", run.Get("ledgers_summed"))
	run.Set("distinct_nontrivial", run.Get("states"))
	run.Assume = append(run.Assume, "negative stored values cannot be observed directly (the wire format drops the sign); they are caught as growth of the ledger total",
		"locked/replenished stake are sub-amounts of stake and are not added to the total")
	run.Finish("model_checking", "BFS over real block transitions (driving alphabet incl. the run-ceremony-to-epoch-end macro, 3 genesis families) with every singleton and ordered pair of the 70-template value menu from every base state; after every inserted block (macro: every inner block) the committed ledger is iterated and summed; oracle: no negative component, delta(total) <= issuance bound of the block kind, and total(with txs) <= total(same block without txs)")
}
