package main

import (
	"fmt"
	"github.com/idena-network/idena-go/blockchain"
)

func main() {
	c, _, _, _ := blockchain.NewTestBlockchain(true, nil)
	fmt.Println(c.Head.Height())
}
