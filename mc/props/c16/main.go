// C16 — flip lottery is deterministic, in-range, duplicate-free; keys reach solvers.
//
// Exhaustive enumeration of small shard layouts (candidates per shard, author subsets, flips
// per author, seeds) plus single-axis sweeps to several hundred candidates. The real lottery
// (calculateCeremonyCandidates up to `lottery.finished`, derived by vbuild) runs on a state
// and epoch database prepared with exactly what it reads; the real key-package functions
// encrypt and decrypt with real keys.
package main

import (
	"os"
	"encoding/json"
	"bytes"
	"fmt"
	"sort"

	"github.com/idena-network/idena-go/common"
	"github.com/idena-network/idena-go/common/eventbus"
	"github.com/idena-network/idena-go/core/appstate"
	"github.com/idena-network/idena-go/core/ceremony"
	"github.com/idena-network/idena-go/core/mempool"
	"github.com/idena-network/idena-go/core/state"
	"github.com/idena-network/idena-go/crypto"
	"github.com/idena-network/idena-go/crypto/ecies"
	"github.com/idena-network/idena-go/database"
	"github.com/idena-network/idena-go/verifhook"
	dbm "github.com/tendermint/tm-db"
	"verif/mc/replica"
	"verif/mc/report"
	"verif/mc/shard"
)

type layout struct {
	Shards  int   `json:"shards"`
	Cands   []int `json:"candidates_per_shard"`
	Authors []int `json:"author_mask_per_shard"` // bit i = candidate i of the shard is an author
	FlipsPA int   `json:"flips_per_author"`
	Seed    int   `json:"seed"`
}

func (l layout) String() string {
	return fmt.Sprintf("shards=%d cands=%v authors=%b flips/author=%d seed=%d", l.Shards, l.Cands, l.Authors, l.FlipsPA, l.Seed)
}

func addrOf(shardNo, i int, withKeys bool) (common.Address, []byte) {
	if withKeys {
		k := replica.Key(100 + shardNo*64 + i)
		return crypto.PubkeyToAddress(k.PublicKey), crypto.FromECDSAPub(&k.PublicKey)
	}
	var a common.Address
	a.SetBytes(crypto.Keccak256([]byte(fmt.Sprintf("c16-%d-%d", shardNo, i)))[:20])
	return a, a[:]
}

func seedBytes(s int) []byte {
	return crypto.Keccak256([]byte(fmt.Sprintf("c16-seed-%d", s)))
}

type built struct {
	vc     *ceremony.ValidationCeremony
	shards map[common.ShardId]*ceremony.VerifShard
}

func runLottery(l layout, withKeys bool) *built {
	db := dbm.NewMemDB()
	app, err := appstate.NewAppState(db, eventbus.New())
	if err != nil {
		panic(err)
	}
	app.State.SetShardsNum(uint32(l.Shards))
	var ids []database.DbLotteryIdentity
	for s := 0; s < l.Shards; s++ {
		for i := 0; i < l.Cands[s]; i++ {
			a, pk := addrOf(s, i, withKeys)
			app.State.SetState(a, state.Verified)
			app.State.SetShardId(a, common.ShardId(s+1))
			id := database.DbLotteryIdentity{Address: a, ShiftedShardId: common.ShardId(s + 1), PubKey: pk, State: uint8(state.Verified), HasDoneAllRequiredFlips: true}
			if l.Authors[s]&(1<<uint(i)) != 0 {
				for f := 0; f < l.FlipsPA; f++ {
					id.FlipCids = append(id.FlipCids, []byte(fmt.Sprintf("flip-%d-%d-%d", s, i, f)))
				}
			}
			ids = append(ids, id)
		}
	}
	edb := database.NewEpochDb(db, 0)
	edb.WriteLotteryIdentities(ids)
	edb.WriteLotterySeed(seedBytes(l.Seed))
	vc := ceremony.VerifNewLottery(app, edb)
	vc.VerifLotteryCore(true)
	return &built{vc, vc.VerifShards()}
}

func canon(b *built) string {
	var ids []int
	for id := range b.shards {
		ids = append(ids, int(id))
	}
	sort.Ints(ids)
	var sb bytes.Buffer
	for _, id := range ids {
		s := b.shards[common.ShardId(id)]
		fmt.Fprintf(&sb, "shard%d short=%v long=%v cpa=%v|", id, s.Short, s.Long, sortedMap(s.CandidatesPerAuthor))
	}
	return sb.String()
}

func sortedMap(m map[int][]int) string {
	var ks []int
	for k := range m {
		ks = append(ks, k)
	}
	sort.Ints(ks)
	var sb bytes.Buffer
	for _, k := range ks {
		fmt.Fprintf(&sb, "%d:%v ", k, m[k])
	}
	return sb.String()
}

func checkLayout(l layout, withKeys bool, out *shard.Out) {
	fail := func(key, what string) { out.Violation(key, what+" | layout "+l.String(), l) }
	var b *built
	func() {
		defer func() {
			if p := recover(); p != nil {
				fail("lottery-panics", fmt.Sprintf("the lottery panicked: %v", p))
			}
		}()
		b = runLottery(l, withKeys)
	}()
	if b == nil {
		return
	}
	out.Count("layouts", 1)
	// determinism: second run, and a run with every map/set iterated in reverse order
	if c2 := canon(runLottery(l, withKeys)); c2 != canon(b) {
		fail("lottery-not-deterministic", "two runs on the same inputs differ")
		return
	}
	verifhook.OrderChooser = func(site string, n int) []int {
		p := make([]int, n)
		for i := range p {
			p[i] = n - 1 - i
		}
		return p
	}
	c3 := canon(runLottery(l, withKeys))
	verifhook.OrderChooser = nil
	if c3 != canon(b) {
		fail("lottery-depends-on-map-order", "the result changes when maps/sets are iterated in reverse order")
		return
	}
	quota := int(common.ShortSessionFlipsCount() + common.ShortSessionExtraFlipsCount())
	for sid, s := range b.shards {
		nf := len(s.Flips)
		out.Outcome(fmt.Sprintf("cands=%d flips=%d", bucket(len(s.Candidates)), bucket(nf)))
		for ci := range s.Candidates {
			var short, long []int
			if ci < len(s.Short) {
				short = s.Short[ci]
			}
			if ci < len(s.Long) {
				long = s.Long[ci]
			}
			for _, kind := range []struct {
				n string
				l []int
			}{{"short", short}, {"long", long}} {
				seen := map[int]bool{}
				for _, f := range kind.l {
					if nf == 0 {
						fail("flip-assigned-in-flipless-shard", fmt.Sprintf("shard %d has no flips but candidate %d gets %s flip index %d", sid, ci, kind.n, f))
						return
					}
					if f < 0 || f >= nf {
						fail("flip-index-out-of-range", fmt.Sprintf("shard %d candidate %d: %s flip index %d not in [0,%d)", sid, ci, kind.n, f, nf))
						return
					}
					if seen[f] {
						fail("flip-listed-twice", fmt.Sprintf("shard %d candidate %d: flip %d twice in the %s list", sid, ci, f, kind.n))
						return
					}
					seen[f] = true
				}
			}
			if len(short) > quota {
				fail("short-quota-exceeded", fmt.Sprintf("shard %d candidate %d: %d short flips > quota %d", sid, ci, len(short), quota))
				return
			}
			if nf > 0 && len(long) == 0 {
				fail("long-list-empty", fmt.Sprintf("shard %d has %d flips but candidate %d has an empty long list", sid, nf, ci))
				return
			}
			// what the API hands to the solver
			sf, lf := b.vc.GetShortFlipsToSolve(s.Candidates[ci], sid), b.vc.GetLongFlipsToSolve(s.Candidates[ci], sid)
			if nf == 0 && (len(sf) > 0 || len(lf) > 0) {
				fail("flips-to-solve-in-flipless-shard", fmt.Sprintf("shard %d has no flips but the API returns flips to solve", sid))
				return
			}
		}
		// assignment <=> key recipients
		idx := map[common.Address]int{}
		for i, a := range s.Candidates {
			idx[a] = i
		}
		for fi, cid := range s.Flips {
			author := s.FlipAuthor[string(cid)]
			ai := idx[author]
			rec := map[int]bool{}
			for _, x := range s.CandidatesPerAuthor[ai] {
				rec[x] = true
			}
			for ci := range s.Candidates {
				assigned := false
				placeholder := false
				if ci < len(s.Short) {
					for _, f := range s.Short[ci] {
						if f == fi {
							assigned = true
						}
					}
				}
				if ci < len(s.Long) {
					for _, f := range s.Long[ci] {
						if f == fi {
							assigned = true
							// the placeholder of the statement: a sole long flip 0 for a candidate whose long list
							// would otherwise be empty, i.e. every flip of every one of its authors is already in
							// its short list (or it has no author at all)
							if fi == 0 && len(s.Long[ci]) == 1 {
								inShort := map[int]bool{}
								for _, f := range s.Short[ci] {
									inShort[f] = true
								}
								isAuthor := map[int]bool{}
								for _, a := range s.AuthorsPerCandidate[ci] {
									isAuthor[a] = true
								}
								wouldBeEmpty := true
								for fj, c2 := range s.Flips {
									if isAuthor[idx[s.FlipAuthor[string(c2)]]] && !inShort[fj] {
										wouldBeEmpty = false
									}
								}
								if wouldBeEmpty {
									placeholder = true
								}
							}
						}
					}
				}
				out.Count("assignment_pairs", 1)
				if placeholder {
					continue
				}
				if assigned && !rec[ci] {
					fail("assigned-but-not-recipient", fmt.Sprintf("shard %d: candidate %d is assigned flip %d of author %d but is not among the author's key recipients %v (candidate's short list %v, long list %v, its authors %v)", sid, ci, fi, ai, s.CandidatesPerAuthor[ai], s.Short[ci], s.Long[ci], s.AuthorsPerCandidate[ci]))
					return
				}
				if !assigned && rec[ci] {
					// a recipient of the author's key must be assigned at least one flip of that author
					any := false
					for fj, c2 := range s.Flips {
						if s.FlipAuthor[string(c2)] != author {
							continue
						}
						for _, lst := range [][]int{s.Short[ci], s.Long[ci]} {
							for _, f := range lst {
								if f == fj {
									any = true
								}
							}
						}
					}
					if !any {
						fail("recipient-but-not-assigned", fmt.Sprintf("shard %d: candidate %d is a key recipient of author %d but is assigned none of its flips", sid, ci, ai))
						return
					}
				}
			}
		}
		// key packages with real keys
		if withKeys {
			for ai, author := range s.Candidates {
				recips := s.CandidatesPerAuthor[ai]
				if len(recips) == 0 {
					continue
				}
				pubKeys, err := b.vc.PrivateEncryptionKeyCandidates(author)
				if err != nil || len(pubKeys) != len(recips) {
					fail("recipient-list-differs", fmt.Sprintf("shard %d author %d: PrivateEncryptionKeyCandidates returns %d keys (err %v), lottery lists %d recipients", sid, ai, len(pubKeys), err, len(recips)))
					return
				}
				pubFlip, _ := ecies.GenerateKey(detRand(ai), crypto.S256(), nil)
				privFlip, _ := ecies.GenerateKey(detRand(1000+ai), crypto.S256(), nil)
				pkg := mempool.EncryptPrivateKeysPackage(pubFlip, privFlip, pubKeys)
				want := crypto.FromECDSA(privFlip.ExportECDSA())
				for ci, x := range s.Candidates {
					index := b.vc.VerifPackageIndex(x, author)
					isRec := false
					for _, r := range recips {
						if r == ci {
							isRec = true
						}
					}
					out.Count("key_extractions", 1)
					if !isRec {
						if index != -1 {
							fail("non-recipient-gets-index", fmt.Sprintf("shard %d: candidate %d is not a recipient of author %d but gets package index %d", sid, ci, ai, index))
							return
						}
						continue
					}
					if index < 0 {
						fail("recipient-without-index", fmt.Sprintf("shard %d: recipient %d of author %d has no package index", sid, ci, ai))
						return
					}
					enc, err := mempool.VerifEncryptedKeyFromPackage(pubFlip, pkg, index)
					if err != nil {
						fail("package-entry-missing", fmt.Sprintf("shard %d: recipient %d cannot extract entry %d of author %d's package: %v", sid, ci, index, ai, err))
						return
					}
					k := replica.Key(100 + (int(sid)-1)*64 + ci)
					dec, err := ecies.ImportECDSA(k).Decrypt(enc, nil, nil)
					if err != nil || !bytes.Equal(dec, want) {
						fail("recipient-cannot-decrypt", fmt.Sprintf("shard %d: recipient %d cannot decrypt author %d's key at index %d (err %v)", sid, ci, ai, index, err))
						return
					}
				}
			}
		}
	}
	out.Sample(map[string]interface{}{"layout": l, "result": canon(b)[:min(400, len(canon(b)))]})
}

func min(a, b int) int {
	if a < b {
		return a
	}
	return b
}

func bucket(n int) int {
	switch {
	case n <= 9:
		return n
	case n <= 40:
		return 40
	}
	return 1000
}

type drand struct{ s uint64 }

func (d *drand) Read(p []byte) (int, error) {
	for i := range p {
		d.s = d.s*6364136223846793005 + 1442695040888963407
		p[i] = byte(d.s >> 33)
	}
	return len(p), nil
}
func detRand(i int) *drand { return &drand{uint64(i)*977 + 13} }

func layouts(thorough bool) (small []layout, big []layout) {
	maxC := 8
	seeds := 3
	if thorough {
		maxC, seeds = 10, 5
	}
	flipsPA := []int{1, 2, 3, 5}
	for seed := 0; seed < seeds; seed++ {
		for c := 0; c <= maxC; c++ {
			for mask := 0; mask < 1<<uint(c); mask++ {
				for _, f := range flipsPA {
					if mask == 0 && f != 1 {
						continue
					}
					small = append(small, layout{1, []int{c}, []int{mask}, f, seed})
				}
			}
		}
		// two shards: second shard small, all combinations of (c2, mask2) with a few first-shard shapes
		for c1 := 0; c1 <= 3; c1++ {
			for m1 := 0; m1 < 1<<uint(c1); m1++ {
				for c2 := 0; c2 <= 3; c2++ {
					for m2 := 0; m2 < 1<<uint(c2); m2++ {
						small = append(small, layout{2, []int{c1, c2}, []int{m1, m2}, 2, seed})
					}
				}
			}
		}
	}
	// several shards with more than 7 authors each (the second author round is reached in every
	// shard; shards are walked in map order, which the reversed-order run turns around)
	for seed := 0; seed < seeds; seed++ {
		masks := func(c int) []int { return []int{1<<uint(c) - 1, 1<<8 - 1, (1<<uint(c) - 1) &^ 0x24} }
		for _, c1 := range []int{9, 12} {
			for _, c2 := range []int{9, 13} {
				for _, m1 := range masks(c1) {
					for _, m2 := range masks(c2) {
						for _, f := range []int{1, 3} {
							small = append(small, layout{2, []int{c1, c2}, []int{m1, m2}, f, seed})
						}
					}
				}
			}
		}
		for _, c := range []int{9, 10, 11, 12, 13} { // single shards of the same shapes (reference for the multi-shard ones)
			for _, m := range masks(c) {
				for _, f := range []int{1, 3} {
					small = append(small, layout{1, []int{c}, []int{m}, f, seed})
				}
			}
		}
		small = append(small, layout{3, []int{9, 10, 11}, []int{1<<9 - 1, 1<<10 - 1, 1<<11 - 1}, 2, seed},
			layout{3, []int{12, 3, 9}, []int{1<<12 - 1, 5, 1<<9 - 1}, 2, seed})
	}
	sizes := []int{10, 11, 12, 13, 14, 15, 20, 30, 40}
	if thorough {
		for c := 10; c <= 40; c++ {
			sizes = append(sizes, c)
		}
		sizes = append(sizes, 100, 300)
	}
	for _, c := range sizes {
		for _, na := range []int{1, 7, 8, c} {
			if na > c {
				continue
			}
			for _, f := range flipsPA {
				for seed := 0; seed < seeds; seed++ {
					big = append(big, layout{1, []int{c}, []int{na}, f, seed}) // Authors = count here
				}
			}
		}
	}
	return
}

func main() {
	run := report.New("C16")
	run.SetBudget(5*60e9, 20*60e9)
	small, big := layouts(run.Thorough())
	if run.Replay != "" {
		// re-run exactly the recorded layout
		var f struct {
			Replay layout `json:"replay"`
		}
		b, err := os.ReadFile(run.Replay)
		if err != nil || json.Unmarshal(b, &f) != nil || f.Replay.Shards == 0 {
			report.HarnessError("cannot read replay file %s", run.Replay)
		}
		out := &shard.Out{Cnt: map[string]int{}, Outc: map[string]int{}}
		checkLayout(f.Replay, true, out)
		for _, v := range out.Viol {
			fmt.Printf("REPRODUCED key=%s\n  %s\n", v.Key, v.What)
		}
		if len(out.Viol) == 0 {
			fmt.Println("replay finished without violation")
			os.Exit(0)
		}
		os.Exit(1)
	}
	shard.Run(run, 0, nil, func(s shard.Info, out *shard.Out) {
		for i, l := range small {
			if !s.Mine(i) {
				continue
			}
			if run.Expired("small layouts") {
				out.Cap("deadline during small layouts")
				break
			}
			checkLayout(l, true, out)
		}
		for i, l := range big {
			if !s.Mine(i) {
				continue
			}
			if run.Expired("sweeps") {
				out.Cap("deadline during sweeps")
				break
			}
			// Authors carries the number of authors: the first n candidates are authors
			c := l.Cands[0]
			withKeys := c <= 40
			mask := 0
			if c <= 62 {
				mask = (1 << uint(l.Authors[0])) - 1
				l2 := l
				l2.Authors = []int{mask}
				checkLayout(l2, withKeys, out)
			} else {
				checkBig(l, out)
			}
		}
	})
	run.Set("layout_space", len(small)+len(big))
	run.Set("evaluations", run.Get("layouts"))
	run.Set("states", run.Get("layouts"))
	run.Set("transitions", run.Get("assignment_pairs"))
	run.Set("traces_validated_against_impl", run.Get("layouts"))
	run.Set("distinct_nontrivial", run.Get("layouts"))
	run.Assume = append(run.Assume, "the lottery runs through VerifLotteryCore, derived by vbuild from calculateCeremonyCandidates up to `lottery.finished = true`",
		"sizes above 62 candidates use an author *count* (first n candidates) and synthetic addresses; key decryption is checked up to 40 candidates")
	run.Finish("model_checking", "input-state space of the lottery: exhaustively every (candidate count <= bound) x every author subset x flips per author in {1,2,3,5} x seeds for one shard, every combination of two small shards, plus sweeps of candidate counts (10..40, 100, 300) x author counts {1,7,8,all}; per layout: determinism (second run, reversed map order), index range, no duplicates per session, short quota, non-empty long list when the shard has flips, nothing assigned in a flipless shard, assignment <=> key recipients for every (candidate, flip) pair except the documented placeholder, and real ECIES package extraction/decryption for every (author, candidate) pair")
}

// checkBig: layouts with more than 62 candidates (mask does not fit): authors = first n candidates
func checkBig(l layout, out *shard.Out) {
	c, na := l.Cands[0], l.Authors[0]
	db := dbm.NewMemDB()
	app, _ := appstate.NewAppState(db, eventbus.New())
	app.State.SetShardsNum(1)
	var ids []database.DbLotteryIdentity
	for i := 0; i < c; i++ {
		a, pk := addrOf(0, i, false)
		app.State.SetState(a, state.Verified)
		app.State.SetShardId(a, 1)
		id := database.DbLotteryIdentity{Address: a, ShiftedShardId: 1, PubKey: pk, State: uint8(state.Verified), HasDoneAllRequiredFlips: true}
		if i < na {
			for f := 0; f < l.FlipsPA; f++ {
				id.FlipCids = append(id.FlipCids, []byte(fmt.Sprintf("flip-0-%d-%d", i, f)))
			}
		}
		ids = append(ids, id)
	}
	edb := database.NewEpochDb(db, 0)
	edb.WriteLotteryIdentities(ids)
	edb.WriteLotterySeed(seedBytes(l.Seed))
	vc := ceremony.VerifNewLottery(app, edb)
	func() {
		defer func() {
			if p := recover(); p != nil {
				out.Violation("lottery-panics", fmt.Sprintf("the lottery panicked: %v | layout %s", p, l), l)
			}
		}()
		vc.VerifLotteryCore(true)
	}()
	out.Count("layouts", 1)
	quota := int(common.ShortSessionFlipsCount() + common.ShortSessionExtraFlipsCount())
	for sid, s := range vc.VerifShards() {
		nf := len(s.Flips)
		for ci := range s.Candidates {
			for _, lst := range [][]int{s.Short[ci], s.Long[ci]} {
				seen := map[int]bool{}
				for _, f := range lst {
					if f < 0 || f >= nf || seen[f] {
						out.Violation("flip-index-invalid-big", fmt.Sprintf("shard %d candidate %d: flip index %d out of range or duplicate | layout %s", sid, ci, f, l), l)
						return
					}
					seen[f] = true
				}
			}
			if len(s.Short[ci]) > quota || nf > 0 && len(s.Long[ci]) == 0 {
				out.Violation("quota-or-empty-long-big", fmt.Sprintf("shard %d candidate %d: short=%d long=%d | layout %s", sid, ci, len(s.Short[ci]), len(s.Long[ci]), l), l)
				return
			}
		}
	}
}
