// Package chainprop is the generic chain model used by the chain properties: scenarios
// (genesis families), an action alphabet over the shared tx menu, and per-property
// monitors hooked around the real propose / validate / insert calls.
package chainprop

import (
	"fmt"
	"strings"

	"github.com/idena-network/idena-go/blockchain/fee"
	"github.com/idena-network/idena-go/blockchain/types"
	"github.com/idena-network/idena-go/blockchain/validation"
	"verif/mc/chainmc"
	"verif/mc/replica"
	"verif/mc/world"
)

type Action struct {
	Name   string
	Tmpl   []int // menu indices offered to the pool in this order
	Empty  bool  // empty block
	Jump   int   // 0: +20s; 1: next phase boundary +1s; 2: next boundary -1s
	Expand bool
	Custom func(t *Trans) bool // optional: property-specific transition (returns false if disabled)
	Macro  string              // "epoch": run blocks until the validation-finishing block is in
	Script []Action            // run these actions in sequence (every inner block runs the hooks)
	// By, if set, makes that actor (e.g. "P") the proposer when it is eligible; otherwise the action is disabled
	By string
	// MaxPath > 0 enables the action only in states reached by fewer than MaxPath actions
	MaxPath int
	// When, if set, enables the action only in states whose key contains one of these substrings (e.g. " per=2 ")
	When []string
	// Direct: the transactions are handed to the building path (VerifProposeBlockWithTxs, derived from
	// ProposeBlock) instead of the pool - the list a pool can hand over after its own filtering, e.g. with a
	// nonce gap left by a dropped transaction. NonceD shifts the nonce of every template transaction.
	Direct bool
	NonceD int
	// TipsDna > 0: every template transaction is re-signed carrying that many DNA of tips
	TipsDna int64
}

// Trans describes one transition while it is being executed.
type Trans struct {
	M       *Model
	C       *chainmc.Ctx
	Scn     int
	Opts    replica.Opts
	St      *chainmc.State
	Act     Action
	A       *replica.Replica // proposer replica (pre-insert in Proposed, post-insert in Inserted)
	Now     int64
	Txs     []*types.Transaction // offered (nil entries = template n/a)
	Admit   []error
	Block   *types.Block
	NextAux map[string]string
}

type Hooks struct {
	// Proposed runs (checks on) after the block was built and before A inserts it.
	// Returning false aborts the transition (no successor).
	Proposed func(t *Trans) bool
	// Inserted runs after A inserted the block (also during replays when Always is set).
	Inserted func(t *Trans) bool
	// Always: call Inserted during replays too (needed when it maintains Aux history).
	Always bool
}

type Model struct {
	Scn   []string
	Opts  []replica.Opts
	// Prefix[scn] lists, per set-up block, the menu templates offered before the search
	// starts (builds pools, invitees, contracts); nil = start at genesis.
	Prefix [][][]string
	Menu  []world.Tmpl
	Acts  []Action
	names []string
	H     Hooks
}

func (m *Model) Idx(name string) int {
	for i, t := range m.Menu {
		if t.Name == name {
			return i
		}
	}
	if t := world.Dyn(name); t != nil {
		m.Menu = append(m.Menu, *t)
		return len(m.Menu) - 1
	}
	panic("no template " + name)
}

func (m *Model) Drive(names ...string) Action {
	a := Action{Name: "drive" + fmt.Sprint(names), Expand: true}
	for _, n := range names {
		a.Tmpl = append(a.Tmpl, m.Idx(n))
	}
	return a
}

func (m *Model) Scenarios() []string { return m.Scn }
func (m *Model) Actions(scn int) []string {
	if len(m.names) != len(m.Acts) {
		m.names = nil
		for _, a := range m.Acts {
			m.names = append(m.names, a.Name)
		}
	}
	return m.names
}
func (m *Model) Expandable(scn, a int) bool                  { return m.Acts[a].Expand }
func (m *Model) Key(scn int, st *chainmc.State) string       { return st.Aux["key"] }

func (m *Model) Init(scn int) *chainmc.State {
	r, err := world.Open(m.Opts[scn], nil, world.T0)
	if err != nil {
		panic(err)
	}
	st := &chainmc.State{Img: replica.Snapshot(r.DB), Now: world.T0, Aux: map[string]string{"key": world.StateKey(r, world.T0)}}
	if scn < len(m.Prefix) {
		for i, names := range m.Prefix[scn] {
			c := &chainmc.Ctx{Check: false, Scn: scn, A: -1}
			by := ""
			var tn []string
			for _, n := range names {
				if strings.HasPrefix(n, "@by:") {
					by = n[4:]
				} else {
					tn = append(tn, n)
				}
			}
			pa := m.Drive(tn...)
			pa.By = by
			nx := m.oneBlock(scn, st, pa, c)
			if nx == nil {
				panic(fmt.Sprintf("scenario %s: prefix block %d failed", m.Scn[scn], i))
			}
			st = nx
		}
	}
	return st
}

func (m *Model) Step(scn int, st *chainmc.State, ai int, c *chainmc.Ctx) *chainmc.State {
	a := m.Acts[ai]
	return m.run(scn, st, a, c)
}

func (m *Model) run(scn int, st *chainmc.State, a Action, c *chainmc.Ctx) *chainmc.State {
	if a.MaxPath > 0 && len(c.Path) >= a.MaxPath {
		return nil
	}
	if len(a.When) > 0 {
		ok := false
		for _, w := range a.When {
			if strings.Contains(st.Aux["key"], w) {
				ok = true
			}
		}
		if !ok {
			return nil
		}
	}
	if len(a.Script) > 0 {
		cur := st
		for _, sa := range a.Script {
			if cur = m.run(scn, cur, sa, c); cur == nil {
				return nil
			}
		}
		return cur
	}
	if a.Macro == "" {
		return m.oneBlock(scn, st, a, c)
	}
	// macro "epoch": drive the chain through the ceremony phases until the block that
	// finishes the validation has been inserted (every inner block runs the same hooks)
	cur := st
	for i := 0; i < 24; i++ {
		step := Action{Name: a.Name, Jump: 1}
		nx := m.oneBlock(scn, cur, step, c)
		if nx == nil {
			if strings.Contains(cur.Aux["key"], " per=0 ") {
				return nil // no ceremony in reach
			}
			step = Action{Name: a.Name}
			if nx = m.oneBlock(scn, cur, step, c); nx == nil {
				return nil
			}
		}
		cur = nx
		if nx.Aux["lastflags"] != "" {
			var f int
			fmt.Sscan(nx.Aux["lastflags"], &f)
			if f&int(types.ValidationFinished) != 0 {
				return cur
			}
		}
	}
	return nil
}

func (m *Model) oneBlock(scn int, st *chainmc.State, a Action, c *chainmc.Ctx) *chainmc.State {
	A, err := world.Open(m.Opts[scn], st.Img, st.Now)
	if err != nil {
		c.Violation("restart-failed", "start-up sequence failed on a committed image: "+err.Error(), nil)
		return nil
	}
	if a.By != "" {
		k := -1
		for i, n := range world.ActorNames {
			if n == a.By {
				k = i
			}
		}
		if k < 0 || !A.App.ValidatorsCache.IsOnlineIdentity(world.A(k)) {
			return nil
		}
		if A, err = world.OpenAs(m.Opts[scn], st.Img, st.Now, k); err != nil {
			return nil
		}
	}
	t := &Trans{M: m, C: c, Scn: scn, Opts: m.Opts[scn], St: st, Act: a, A: A, NextAux: map[string]string{}}
	for k, v := range st.Aux {
		if k != "key" {
			t.NextAux[k] = v
		}
	}
	now := st.Now + 20
	if h := A.Chain.Head.Time() + 20; h > now {
		now = h
	}
	switch a.Jump {
	case 1, 2:
		nb := world.NextBoundary(A, now)
		if nb == 0 || nb > st.Now+864000 {
			return nil
		}
		if a.Jump == 1 {
			now = nb + 1
		} else if nb-1 > now {
			now = nb - 1
		} else {
			return nil
		}
	}
	t.Now = now
	replica.SetTime(now)
	if a.Custom != nil {
		if !a.Custom(t) {
			return nil
		}
		return &chainmc.State{Img: replica.Snapshot(t.A.DB), Now: t.Now, Aux: withKey(t.NextAux, world.StateKey(t.A, t.Now)+t.NextAux["keyx"])}
	}
	if a.Empty {
		t.Block = A.Empty()
	} else {
		b := world.NewB(A)
		for _, ti := range a.Tmpl {
			t.Txs = append(t.Txs, m.Menu[ti].Build(b))
		}
		if a.Direct {
			// only transactions that the pool would admit in this state are legitimate input of the
			// building path (a transaction that fails admission never reaches a proposer's list)
			if ro, err := A.App.Readonly(A.Chain.Head.Height()); err == nil {
				minFee := fee.GetFeePerGasForNetwork(ro.ValidatorsCache.NetworkSize())
				for i, tx := range t.Txs {
					if tx != nil && validation.ValidateTx(ro, tx, minFee, validation.InboundTx) != nil {
						t.Txs[i] = nil
					}
				}
			}
		}
		if a.NonceD != 0 {
			for i := range t.Txs {
				t.Txs[i] = world.WithNonce(t.Txs[i], a.NonceD)
			}
		}
		if a.TipsDna > 0 {
			for i := range t.Txs {
				t.Txs[i] = world.WithTips(t.Txs[i], replica.Dna(a.TipsDna))
			}
		}
		if a.Direct {
			var txs []*types.Transaction
			for _, tx := range t.Txs {
				if tx != nil {
					txs = append(txs, tx)
				}
			}
			if len(txs) == 0 {
				return nil
			}
			replica.SetTime(now)
			A.Activate()
			t.Block = A.Chain.VerifProposeBlockWithTxs([]byte{}, txs).Block
			c.Count("direct_proposals", 1)
			c.Outcome(fmt.Sprintf("direct offered=%d included=%d", len(txs), len(t.Block.Body.Transactions)))
		} else {
		t.Admit = world.Submit(A, t.Txs)
		admitted := 0
		for _, e := range t.Admit {
			if e == nil {
				admitted++
			}
		}
		c.Count("txs_offered", len(t.Txs))
		c.Count("txs_admitted", admitted)
		t.Block = A.Propose(now)
		c.Count("txs_included", len(t.Block.Body.Transactions))
		c.Outcome(fmt.Sprintf("offered=%d admitted=%d included=%d flags=%d", len(t.Txs), admitted, len(t.Block.Body.Transactions), t.Block.Header.Flags()))
		}
	}
	if c.Check && m.H.Proposed != nil {
		if !m.H.Proposed(t) {
			return nil
		}
	}
	if err := A.Add(t.Block); err != nil {
		c.Violation("proposer-rejects:"+ErrClass(err), fmt.Sprintf("proposer cannot insert its own block: %v", err), TxTypes(t.Block))
		return nil
	}
	if (c.Check || m.H.Always) && m.H.Inserted != nil {
		if !m.H.Inserted(t) {
			return nil
		}
	}
	t.NextAux["lastflags"] = fmt.Sprint(int(t.Block.Header.Flags()))
	return &chainmc.State{Img: replica.Snapshot(A.DB), Now: now, Aux: withKey(t.NextAux, world.StateKey(A, now)+t.NextAux["keyx"])}
}

func withKey(aux map[string]string, key string) map[string]string {
	aux["key"] = key
	return aux
}

// PreReplica opens a read-only replica on the pre-state image (for before/after oracles).
func (t *Trans) PreReplica() *replica.Replica {
	r, err := world.OpenAs(t.Opts, t.St.Img, t.St.Now, t.A.Opts.KeyIdx)
	if err != nil {
		panic(err)
	}
	replica.SetTime(t.Now)
	return r
}

func ErrClass(e error) string {
	s := e.Error()
	for i, ch := range s {
		if ch == ':' || ch == ',' || ch == '.' || (ch >= '0' && ch <= '9') {
			return s[:i]
		}
	}
	return s
}

func TxTypes(b *types.Block) []string {
	var r []string
	for _, tx := range b.Body.Transactions {
		to := "nil"
		if tx.To != nil {
			to = tx.To.Hex()[:10]
		}
		r = append(r, fmt.Sprintf("type=%d nonce=%d epoch=%d to=%s amount=%v", tx.Type, tx.AccountNonce, tx.Epoch, to, tx.Amount))
	}
	return r
}

// StdScenarios returns the three standard genesis families.
func StdScenarios() ([]string, []replica.Opts) {
	g1, g2 := world.GenesisG1(), world.GenesisG2()
	g2c := world.GenesisG2()
	g2c.FirstCeremonyTime = world.T0 + 400
	g1.WithCeremony, g2.WithCeremony, g2c.WithCeremony = true, true, true
	return []string{"G1-god-only", "G2-mixed", "G2-ceremony-near"}, []replica.Opts{g1, g2, g2c}
}

// RichScenario returns the G2 family after a set-up prefix: pool P with delegators D1 and D2,
// V1/V2/P online, NEW invited by G, activated and holding stake, a time-lock contract of X1.
func RichScenario() (string, replica.Opts, [][]string) {
	o := world.GenesisG2()
	o.WithCeremony = true
	return "G2-rich(pool,invitee,contract)", o, [][]string{
		{"online V1", "online P", "delegate D1->P", "delegate D2->P", "delegate N1->P", "invite G->NEW"},
		{"activate NEW->self", "online V2", "deploy timelock X1 stake ok"},
		{"replenish X1->NEW 10", "submitFlip V1 pair0", "fund contract0 X2 5"},
		{},
		{"@by:P"}, // the pool has proposed once: its delegation nonce now points at a delegator
	}
}

// CeremonyScenario: G2 with a Verified god that authored three flips, the first validation close.
func CeremonyScenario() (string, replica.Opts, [][]string) {
	o := world.GenesisG2()
	o.WithCeremony = true
	o.FirstCeremonyTime = world.T0 + 400
	a := o.Alloc[world.A(world.G)]
	a.State = 3 // Verified
	a.Stake = replica.Dna(500)
	o.Alloc[world.A(world.G)] = a
	return "G2-ceremony(god verified, 3 flips)", o, [][]string{
		{"submitFlip G 0", "submitFlip G 1", "online V1", "online V2"},
		{"submitFlip G 2"},
	}
}

// FullCeremony returns a scripted action that runs a whole validation with the given
// participants (hash in the short session, short+long+evidence in the long session, then
// the blocks up to the epoch-finishing one). patterns[i] is the answer pattern of parts[i].
func (m *Model) FullCeremony(name string, parts []string, patterns []string, evidenceBy []string) Action {
	var hash, reveal []string
	for i, p := range parts {
		hash = append(hash, "cer:hash:"+p+":"+patterns[i])
		reveal = append(reveal, "cer:short:"+p+":"+patterns[i], "cer:long:"+p+":"+patterns[i])
	}
	for _, p := range evidenceBy {
		reveal = append(reveal, "cer:evidence:"+p+":all")
	}
	j := Action{Name: "jump", Jump: 1}
	h := m.Drive(hash...)
	r := m.Drive(reveal...)
	return Action{Name: name, Expand: true, When: []string{" per=0 "}, Script: []Action{j, j, h, j, r, {Name: "epoch", Macro: "epoch"}}}
}

// Std installs the four standard scenarios (3 genesis families + the rich prefix scenario).
func (m *Model) Std() {
	m.Scn, m.Opts = StdScenarios()
	rn, ro, rp := RichScenario()
	m.Scn, m.Opts = append(m.Scn, rn), append(m.Opts, ro)
	m.Prefix = [][][]string{nil, nil, nil, rp}
}

// StdDrive appends the standard driving alphabet (expandable actions).
func (m *Model) StdDrive() {
	m.Acts = append(m.Acts,
		m.Drive(),
		m.Drive("online V1", "online P", "delegate D1->P", "delegate D2->P"),
		m.Drive("online V2", "delegate C1->V1", "invite G->NEW"),
		m.Drive("kill V2", "send X1->X2 1"),
		m.Drive("deploy timelock X1 stake ok", "submitFlip V1 pair0", "burn X1 5 key=k"),
		m.Drive("replenish X1->D2 bal", "offline V1", "undelegate D1", "activate I1->NEW2"),
		Action{Name: "empty-block", Empty: true, Expand: true},
		Action{Name: "jump-to-next-phase", Jump: 1, Expand: true},
		Action{Name: "jump-before-next-phase", Jump: 2, Expand: true},
		Action{Name: "run-ceremony-to-epoch-end", Macro: "epoch", Expand: true},
		Action{Name: "block-proposed-by-pool-P", By: "P", Expand: true},
	)
}

// GapSingles appends, for every menu template, a leaf action that hands the transaction with the next-but-one
// nonce directly to the building path (what is left of a sender's run when its first transaction was dropped).
func (m *Model) GapSingles() {
	for i := range m.Menu {
		m.Acts = append(m.Acts, Action{Name: "gap:" + m.Menu[i].Name, Tmpl: []int{i}, Direct: true, NonceD: 1})
	}
}

// TipsSingles appends, for every menu template, a leaf action offering the transaction with 1 DNA of tips.
func (m *Model) TipsSingles() {
	for i := range m.Menu {
		m.Acts = append(m.Acts, Action{Name: "tips:" + m.Menu[i].Name, Tmpl: []int{i}, TipsDna: 1})
	}
}

// Singles appends every menu template as a leaf action; Pairs every ordered pair.
func (m *Model) Singles(expand bool) {
	for i := range m.Menu {
		m.Acts = append(m.Acts, Action{Name: "1:" + m.Menu[i].Name, Tmpl: []int{i}, Expand: expand})
	}
}
func (m *Model) Pairs() { m.PairsUpTo(0) }

// PairsUpTo adds the ordered pairs as leaf actions enabled in states reached by < maxPath actions (0 = everywhere).
func (m *Model) PairsUpTo(maxPath int) {
	for i := range m.Menu {
		for j := range m.Menu {
			if i != j {
				m.Acts = append(m.Acts, Action{Name: "2:" + m.Menu[i].Name + " + " + m.Menu[j].Name, Tmpl: []int{i, j}, MaxPath: maxPath})
			}
		}
	}
}

// Main is the shared main() of chain properties.
func Main(id string, build func(thorough bool) *Model, after func(run RunLike, m *Model)) {}

type RunLike interface{}
