module verif/mc

go 1.23

require (
	github.com/deckarep/golang-set v1.7.1
	github.com/golang/protobuf v1.5.2
	github.com/idena-network/idena-go v0.0.0
	github.com/klauspost/compress v1.15.5
	github.com/pkg/errors v0.9.1
	github.com/tendermint/tm-db v0.6.7
	golang.org/x/net v0.0.0-20220630215102-69896b714898
)

require (
	github.com/RoaringBitmap/roaring v0.9.4 // indirect
	github.com/andybalholm/brotli v1.0.3 // indirect
	github.com/awnumar/memcall v0.0.0-20191004114545-73db50fd9f80 // indirect
	github.com/awnumar/memguard v0.22.2 // indirect
	github.com/btcsuite/btcd/btcec/v2 v2.2.0 // indirect
	github.com/confio/ics23/go v0.6.6 // indirect
	github.com/coreos/go-semver v0.3.0 // indirect
	github.com/cosmos/iavl v0.15.3 // indirect
	github.com/cpuguy83/go-md2man/v2 v2.0.0 // indirect
	github.com/crackcomm/go-gitignore v0.0.0-20170627025303-887ab5e44cc3 // indirect
	github.com/decred/dcrd/dcrec/secp256k1/v4 v4.0.1 // indirect
	github.com/dsnet/compress v0.0.1 // indirect
	github.com/go-logr/logr v1.2.3 // indirect
	github.com/go-logr/stdr v1.2.2 // indirect
	github.com/go-stack/stack v1.8.1 // indirect
	github.com/gogo/protobuf v1.3.2 // indirect
	github.com/golang/snappy v0.0.4 // indirect
	github.com/google/btree v1.0.0 // indirect
	github.com/google/uuid v1.3.0 // indirect
	github.com/grpc-ecosystem/grpc-gateway v1.16.0 // indirect
	github.com/hashicorp/golang-lru v0.5.4 // indirect
	github.com/idena-network/idena-wasm-binding v0.0.0-20230503080211-4227b9778d3d // indirect
	github.com/ipfs/bbloom v0.0.4 // indirect
	github.com/ipfs/go-block-format v0.0.3 // indirect
	github.com/ipfs/go-blockservice v0.4.0 // indirect
	github.com/ipfs/go-cid v0.2.0 // indirect
	github.com/ipfs/go-datastore v0.5.1 // indirect
	github.com/ipfs/go-ipfs-blockstore v1.2.0 // indirect
	github.com/ipfs/go-ipfs-ds-help v1.1.0 // indirect
	github.com/ipfs/go-ipfs-exchange-interface v0.2.0 // indirect
	github.com/ipfs/go-ipfs-files v0.1.1 // indirect
	github.com/ipfs/go-ipfs-util v0.0.2 // indirect
	github.com/ipfs/go-ipld-cbor v0.0.5 // indirect
	github.com/ipfs/go-ipld-format v0.4.0 // indirect
	github.com/ipfs/go-ipld-legacy v0.1.1 // indirect
	github.com/ipfs/go-log v1.0.5 // indirect
	github.com/ipfs/go-log/v2 v2.5.1 // indirect
	github.com/ipfs/go-merkledag v0.6.0 // indirect
	github.com/ipfs/go-metrics-interface v0.0.1 // indirect
	github.com/ipfs/go-path v0.3.0 // indirect
	github.com/ipfs/go-verifcid v0.0.2 // indirect
	github.com/ipfs/interface-go-ipfs-core v0.7.0 // indirect
	github.com/ipld/go-codec-dagpb v1.4.1 // indirect
	github.com/ipld/go-ipld-prime v0.17.0 // indirect
	github.com/jbenet/goprocess v0.1.4 // indirect
	github.com/klauspost/cpuid/v2 v2.0.14 // indirect
	github.com/klauspost/pgzip v1.2.5 // indirect
	github.com/libp2p/go-buffer-pool v0.1.0 // indirect
	github.com/libp2p/go-libp2p v0.21.0 // indirect
	github.com/libp2p/go-libp2p-core v0.19.1 // indirect
	github.com/libp2p/go-libp2p-discovery v0.7.0 // indirect
	github.com/libp2p/go-libp2p-pubsub v0.6.1 // indirect
	github.com/libp2p/go-msgio v0.2.0 // indirect
	github.com/libp2p/go-yamux v1.4.1 // indirect
	github.com/mattn/go-isatty v0.0.14 // indirect
	github.com/mholt/archiver/v3 v3.5.1-0.20210112195346-074da64920d3 // indirect
	github.com/minio/sha256-simd v1.0.0 // indirect
	github.com/mr-tron/base58 v1.2.0 // indirect
	github.com/multiformats/go-base32 v0.0.4 // indirect
	github.com/multiformats/go-base36 v0.1.0 // indirect
	github.com/multiformats/go-multiaddr v0.6.0 // indirect
	github.com/multiformats/go-multibase v0.1.1 // indirect
	github.com/multiformats/go-multicodec v0.5.0 // indirect
	github.com/multiformats/go-multihash v0.2.1 // indirect
	github.com/multiformats/go-varint v0.0.6 // indirect
	github.com/nwaples/rardecode v1.1.0 // indirect
	github.com/opentracing/opentracing-go v1.2.0 // indirect
	github.com/patrickmn/go-cache v2.1.0+incompatible // indirect
	github.com/pborman/uuid v1.2.1 // indirect
	github.com/pierrec/lz4/v4 v4.1.2 // indirect
	github.com/polydawn/refmt v0.0.0-20201211092308-30ac6d18308e // indirect
	github.com/rcrowley/go-metrics v0.0.0-20201227073835-cf1acfcdf475 // indirect
	github.com/rjeczalik/notify v0.9.2 // indirect
	github.com/rs/cors v1.8.2 // indirect
	github.com/russross/blackfriday/v2 v2.0.1 // indirect
	github.com/shopspring/decimal v0.0.0-20200227202807-02e2044944cc // indirect
	github.com/shurcooL/sanitized_anchor_name v1.0.0 // indirect
	github.com/spaolacci/murmur3 v1.1.0 // indirect
	github.com/syndtr/goleveldb v1.0.1-0.20200815110645-5c35d600f0ca // indirect
	github.com/tendermint/tendermint v0.35.0 // indirect
	github.com/ulikunitz/xz v0.5.9 // indirect
	github.com/urfave/cli v1.22.5 // indirect
	github.com/whyrusleeping/cbor-gen v0.0.0-20210219115102-f37d292932f2 // indirect
	github.com/whyrusleeping/timecache v0.0.0-20160911033111-cfcb2f1abfee // indirect
	github.com/willf/bitset v1.1.10 // indirect
	github.com/willf/bloom v2.0.3+incompatible // indirect
	github.com/xi2/xz v0.0.0-20171230120015-48954b6210f8 // indirect
	go.opentelemetry.io/otel v1.7.0 // indirect
	go.opentelemetry.io/otel/trace v1.7.0 // indirect
	go.uber.org/atomic v1.9.0 // indirect
	go.uber.org/multierr v1.8.0 // indirect
	go.uber.org/zap v1.21.0 // indirect
	golang.org/x/crypto v0.0.0-20220525230936-793ad666bf5e // indirect
	golang.org/x/sys v0.0.0-20220520151302-bc2c85ada10a // indirect
	golang.org/x/text v0.3.7 // indirect
	golang.org/x/xerrors v0.0.0-20220609144429-65e65417b02f // indirect
	google.golang.org/genproto v0.0.0-20211118181313-81c1377c94b1 // indirect
	google.golang.org/grpc v1.47.0 // indirect
	google.golang.org/protobuf v1.28.0 // indirect
	lukechampine.com/blake3 v1.1.7 // indirect
)

replace github.com/idena-network/idena-go => /repo

replace github.com/cosmos/iavl => github.com/idena-network/iavl v0.12.3-0.20211223100228-a33b117aa31e
