// Package crashdb is a dbm.DB wrapper that forwards to a MemDB and logs every mutating
// call: Set/SetSync/Delete/DeleteSync as single entries, a Batch.Write/WriteSync as ONE
// atomic entry (goleveldb applies a batch atomically through its journal). Replaying any
// prefix of the log on the starting image yields the database a crash at that point leaves.
package crashdb

import (
	dbm "github.com/tendermint/tm-db"
	"verif/mc/replica"
)

type Op struct {
	Del bool
	K   []byte
	V   []byte
}

// Entry is one atomic write (1 op for a plain call, n ops for a batch).
type Entry struct {
	Ops   []Op
	Batch bool
}

type DB struct {
	*dbm.MemDB
	Log []Entry
}

func New(img replica.Image) *DB { return &DB{MemDB: img.NewDB()} }

func cp(b []byte) []byte { return append([]byte{}, b...) }

func (d *DB) Set(k, v []byte) error {
	if err := d.MemDB.Set(k, v); err != nil {
		return err
	}
	d.Log = append(d.Log, Entry{Ops: []Op{{K: cp(k), V: cp(v)}}})
	return nil
}
func (d *DB) SetSync(k, v []byte) error { return d.Set(k, v) }
func (d *DB) Delete(k []byte) error {
	if err := d.MemDB.Delete(k); err != nil {
		return err
	}
	d.Log = append(d.Log, Entry{Ops: []Op{{Del: true, K: cp(k)}}})
	return nil
}
func (d *DB) DeleteSync(k []byte) error { return d.Delete(k) }

type batch struct {
	d   *DB
	in  dbm.Batch
	ops []Op
}

func (d *DB) NewBatch() dbm.Batch { return &batch{d: d, in: d.MemDB.NewBatch()} }

func (b *batch) Set(k, v []byte) error {
	if err := b.in.Set(k, v); err != nil {
		return err
	}
	b.ops = append(b.ops, Op{K: cp(k), V: cp(v)})
	return nil
}
func (b *batch) Delete(k []byte) error {
	if err := b.in.Delete(k); err != nil {
		return err
	}
	b.ops = append(b.ops, Op{Del: true, K: cp(k)})
	return nil
}
func (b *batch) Write() error {
	if err := b.in.Write(); err != nil {
		return err
	}
	if len(b.ops) > 0 {
		b.d.Log = append(b.d.Log, Entry{Ops: b.ops, Batch: true})
	}
	b.ops = nil
	return nil
}
func (b *batch) WriteSync() error { return b.Write() }
func (b *batch) Close() error     { return b.in.Close() }

// Apply replays the first k log entries on a copy of img.
func Apply(img replica.Image, log []Entry, k int) *dbm.MemDB {
	db := img.NewDB()
	for i := 0; i < k && i < len(log); i++ {
		for _, o := range log[i].Ops {
			if o.Del {
				db.Delete(o.K)
			} else {
				db.Set(o.K, o.V)
			}
		}
	}
	return db
}
