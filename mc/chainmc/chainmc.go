// Package chainmc is the explicit-state explorer over real block transitions.
//
// A state is a database image of a replica (plus virtual time and property-specific
// history); a transition is one action of the property's alphabet executed by the
// real code (ProposeBlock / AddBlock / ResetTo / ...). The search is breadth-first and
// level-synchronous; states are deduplicated by a canonical key supplied by the model.
// Work is sharded over worker *processes* (process globals such as the virtual clock,
// validation.appCfg and time.Local make goroutine-level sharing unsound); a worker
// re-derives a state by replaying its action path from the scenario's initial state
// (all inputs are deterministic), with a small cache of recently built states.
package chainmc

import (
	"bufio"
	"encoding/json"
	"fmt"
	"os"
	"os/exec"
	"runtime"
	"runtime/debug"
	"sort"
	"strings"
	"sync"

	"verif/mc/replica"
	"verif/mc/report"
)

type State struct {
	Img replica.Image
	Now int64
	Aux map[string]string
}

func (s *State) Clone() *State {
	n := &State{Img: s.Img, Now: s.Now, Aux: map[string]string{}}
	for k, v := range s.Aux {
		n.Aux[k] = v
	}
	return n
}

type Model interface {
	Scenarios() []string
	Init(scn int) *State
	// Actions returns the labels of the action alphabet of a scenario (indices are stable).
	Actions(scn int) []string
	// Step executes action a on st. It returns nil if the action is not enabled in st.
	// c.Check is false while a path is merely being replayed to rebuild a state.
	Step(scn int, st *State, a int, c *Ctx) *State
	// Key is the canonical state key used for deduplication.
	Key(scn int, st *State) string
	// Expandable reports whether successors reached through action a are expanded further
	// (false = "leaf" actions, e.g. the large mempool menu evaluated from every base state).
	Expandable(scn int, a int) bool
}

type Viol struct {
	Key    string      `json:"key"`
	What   string      `json:"what"`
	Replay interface{} `json:"replay"`
}

type Succ struct {
	A    int    `json:"a"`
	Key  string `json:"key"`
	Leaf bool   `json:"leaf,omitempty"`
}

type Result struct {
	Lo      int               `json:"lo"`
	Scn     int               `json:"scn"`
	Path    []int             `json:"path"`
	Succ    []Succ            `json:"succ"`
	Viol    []Viol            `json:"viol,omitempty"`
	Cnt     map[string]int    `json:"cnt,omitempty"`
	Out     map[string]int    `json:"out,omitempty"`
	Samples []json.RawMessage `json:"samples,omitempty"`
	Err     string            `json:"err,omitempty"`
}

type Ctx struct {
	Check bool
	Scn   int
	Path  []int // path to the state being expanded
	A     int   // action being taken
	res   *Result
	model Model
}

func (c *Ctx) Labels() []string {
	acts := c.model.Actions(c.Scn)
	var l []string
	for _, a := range c.Path {
		l = append(l, acts[a])
	}
	if c.A >= 0 {
		l = append(l, acts[c.A])
	}
	return l
}

// Violation records a violation found on this transition. key must be stable.
func (c *Ctx) Violation(key, what string, detail interface{}) {
	if !c.Check || c.res == nil {
		return
	}
	c.res.Viol = append(c.res.Viol, Viol{Key: key, What: what + " | scenario=" + c.model.Scenarios()[c.Scn] + " trace=" + strings.Join(c.Labels(), " ; "),
		Replay: map[string]interface{}{"scenario": c.Scn, "path": append(append([]int{}, c.Path...), c.A), "labels": c.Labels(), "detail": detail}})
}

func (c *Ctx) Count(k string, n int) {
	if c.Check && c.res != nil {
		c.res.Cnt[k] += n
	}
}

func (c *Ctx) Outcome(class string) {
	if c.Check && c.res != nil {
		c.res.Out[class]++
	}
}

func (c *Ctx) Sample(v interface{}) {
	if c.Check && c.res != nil && len(c.res.Samples) < 2 {
		b, _ := json.Marshal(v)
		c.res.Samples = append(c.res.Samples, b)
	}
}

// ---------------------------------------------------------------- worker side

type job struct {
	Scn  int   `json:"scn"`
	Path []int `json:"path"`
	Lo   int   `json:"lo"`
	Hi   int   `json:"hi"`
}

func IsWorker() bool { return os.Getenv("VERIF_CHAINMC_WORKER") == "1" }

type stateCache struct {
	m     map[string]*State
	order []string
}

func pkey(scn int, p []int) string { return fmt.Sprint(scn, p) }

func (sc *stateCache) get(scn int, p []int) *State { return sc.m[pkey(scn, p)] }
func (sc *stateCache) put(scn int, p []int, s *State) {
	k := pkey(scn, p)
	if _, ok := sc.m[k]; ok {
		return
	}
	sc.m[k] = s
	sc.order = append(sc.order, k)
	if len(sc.order) > 3000 {
		delete(sc.m, sc.order[0])
		sc.order = sc.order[1:]
	}
}

// Rebuild returns the state reached by path (replaying with checks off).
func rebuild(m Model, cache *stateCache, scn int, path []int) (*State, error) {
	if s := cache.get(scn, path); s != nil {
		return s, nil
	}
	// longest cached prefix
	i := len(path)
	var st *State
	for ; i > 0; i-- {
		if s := cache.get(scn, path[:i]); s != nil {
			st = s
			break
		}
	}
	if st == nil {
		st = m.Init(scn)
		cache.put(scn, nil, st)
		i = 0
	}
	for ; i < len(path); i++ {
		c := &Ctx{Check: false, Scn: scn, Path: path[:i], A: path[i], model: m}
		nx := m.Step(scn, st, path[i], c)
		if nx == nil {
			return nil, fmt.Errorf("replay diverged: action %d (%s) not enabled at %v", path[i], m.Actions(scn)[path[i]], path[:i])
		}
		st = nx
		cache.put(scn, path[:i+1], st)
	}
	return st, nil
}

// Expand runs every action from the state at path, with checks on.
func Expand(m Model, cache *stateCache, scn int, path []int, lo, hi int) *Result {
	res := &Result{Scn: scn, Lo: lo, Path: path, Cnt: map[string]int{}, Out: map[string]int{}}
	st, err := rebuild(m, cache, scn, path)
	if err != nil {
		res.Err = err.Error()
		return res
	}
	for a := lo; a < hi && a < len(m.Actions(scn)); a++ {
		c := &Ctx{Check: true, Scn: scn, Path: path, A: a, res: res, model: m}
		var nx *State
		func() {
			defer func() {
				if p := recover(); p != nil {
					msg := fmt.Sprint(p)
					if len(msg) > 120 {
						msg = msg[:120]
					}
					key := msg
					if len(key) > 40 {
						key = key[:40]
					}
					stack := string(debug.Stack())
					if len(stack) > 6000 {
						stack = stack[:6000]
					}
					c.Violation("panic:"+key, "the code under test panicked: "+msg, map[string]interface{}{"stack": stack})
					nx = nil
				}
			}()
			nx = m.Step(scn, st, a, c)
		}()
		if nx == nil {
			res.Cnt["actions_disabled"]++
			continue
		}
		res.Cnt["transitions"]++
		leaf := !m.Expandable(scn, a) || nx.Aux["leaf"] == "1" // (a model may end a branch at a state)
		if !leaf {
			cache.put(scn, append(append([]int{}, path...), a), nx)
		}
		res.Succ = append(res.Succ, Succ{A: a, Key: m.Key(scn, nx), Leaf: leaf})
	}
	return res
}

func WorkerMain(m Model) {
	cache := &stateCache{m: map[string]*State{}}
	in := bufio.NewReaderSize(os.Stdin, 1<<20)
	out := bufio.NewWriter(os.Stdout)
	real := os.Stdout
	_ = real
	for {
		line, err := in.ReadBytes('\n')
		if len(line) > 0 {
			var j job
			if e := json.Unmarshal(line, &j); e != nil {
				fmt.Fprintln(os.Stderr, "worker: bad job", e)
				os.Exit(3)
			}
			res := Expand(m, cache, j.Scn, j.Path, j.Lo, j.Hi)
			b, _ := json.Marshal(res)
			out.WriteString("RESULT ")
			out.Write(b)
			out.WriteString("\n")
			out.Flush()
		}
		if err != nil {
			return
		}
	}
}

// ---------------------------------------------------------------- parent side

type Config struct {
	Depth   int
	Workers int
	// MaxStates caps the number of distinct states (0 = none); hitting it marks the run non-exhaustive.
	MaxStates int
	Chunk     int      // actions per job (default 32)
	Args      []string // extra args for workers
}

type worker struct {
	cmd *exec.Cmd
	in  *bufio.Writer
	out *bufio.Reader
}

func startWorker(args []string) (*worker, error) {
	cmd := exec.Command(os.Args[0], args...)
	cmd.Env = append(os.Environ(), "VERIF_CHAINMC_WORKER=1", "GOMAXPROCS=2")
	cmd.Stderr = os.Stderr
	ip, err := cmd.StdinPipe()
	if err != nil {
		return nil, err
	}
	op, err := cmd.StdoutPipe()
	if err != nil {
		return nil, err
	}
	if err := cmd.Start(); err != nil {
		return nil, err
	}
	return &worker{cmd: cmd, in: bufio.NewWriter(ip), out: bufio.NewReaderSize(op, 1<<20)}, nil
}

func (w *worker) do(j job) (*Result, error) {
	b, _ := json.Marshal(j)
	w.in.Write(b)
	w.in.WriteString("\n")
	if err := w.in.Flush(); err != nil {
		return nil, err
	}
	for {
		line, err := w.out.ReadBytes('\n')
		if err != nil {
			return nil, fmt.Errorf("worker died: %v", err)
		}
		if !strings.HasPrefix(string(line), "RESULT ") {
			continue // stray output of instrumented code
		}
		var r Result
		if err := json.Unmarshal(line[7:], &r); err != nil {
			return nil, err
		}
		return &r, nil
	}
}

// Explore runs the level-synchronous BFS. Counters go into run.Cov.
func Explore(run *report.Run, m Model, cfg Config) {
	if cfg.Workers == 0 {
		cfg.Workers = runtime.NumCPU()
	}
	args := append([]string{"-tier", run.Tier, "-verif", run.Verif}, cfg.Args...)
	type item struct {
		scn  int
		path []int
	}
	var frontier []item
	seen := map[string]bool{}
	queued := map[string]bool{}
	for s := range m.Scenarios() {
		st := m.Init(s)
		if st == nil {
			report.HarnessError("scenario %d failed to initialise", s)
		}
		seen[fmt.Sprint(s, "|", m.Key(s, st))] = true
		queued[fmt.Sprint(s, "|", m.Key(s, st))] = true
		frontier = append(frontier, item{s, nil})
	}
	states := len(frontier)
	n := cfg.Workers
	var ws []*worker
	for i := 0; i < n; i++ {
		w, err := startWorker(args)
		if err != nil {
			report.HarnessError("cannot start worker: %v", err)
		}
		ws = append(ws, w)
	}
	defer func() {
		for _, w := range ws {
			w.in.Flush()
			w.cmd.Process.Kill()
			w.cmd.Wait()
		}
	}()
	completed := 0
	leaves := 0
	var dbg *os.File
	if p := os.Getenv("VERIF_DUMP_STATES"); p != "" {
		dbg, _ = os.Create(p)
		defer dbg.Close()
	}
	for depth := 0; depth < cfg.Depth && len(frontier) > 0; depth++ {
		var jl []job
		for _, it := range frontier {
			na := len(m.Actions(it.scn))
			chunk := cfg.Chunk
			if chunk <= 0 {
				chunk = 32
			}
			for lo := 0; lo < na; lo += chunk {
				jl = append(jl, job{it.scn, it.path, lo, lo + chunk})
			}
		}
		jobs := make(chan job, len(jl))
		for _, j := range jl {
			jobs <- j
		}
		close(jobs)
		results := make(chan *Result, len(jl))
		var wg sync.WaitGroup
		var failed error
		var fmu sync.Mutex
		for _, w := range ws {
			wg.Add(1)
			go func(w *worker) {
				defer wg.Done()
				for it := range jobs {
					if run.Expired(fmt.Sprintf("BFS level %d", depth+1)) {
						continue
					}
					r, err := w.do(it)
					if err != nil {
						fmu.Lock()
						failed = err
						fmu.Unlock()
						return
					}
					results <- r
				}
			}(w)
		}
		wg.Wait()
		close(results)
		if failed != nil {
			report.HarnessError("worker failure: %v", failed)
		}
		var next []item
		expanded := 0
		var rs []*Result
		for r := range results {
			rs = append(rs, r)
		}
		sort.Slice(rs, func(i, j int) bool {
			if rs[i].Scn != rs[j].Scn {
				return rs[i].Scn < rs[j].Scn
			}
			a, b := fmt.Sprint(rs[i].Path), fmt.Sprint(rs[j].Path)
			if a != b {
				return a < b
			}
			return rs[i].Lo < rs[j].Lo
		})
		for _, r := range rs {
			expanded++
			if r.Err != "" {
				report.HarnessError("worker: %s", r.Err)
			}
			for k, v := range r.Cnt {
				run.Add(k, v)
			}
			for k, v := range r.Out {
				for i := 0; i < v; i++ {
					run.Outcome(k)
				}
			}
			for _, s := range r.Samples {
				var v interface{}
				json.Unmarshal(s, &v)
				run.Sample(v)
			}
			for _, v := range r.Viol {
				run.Violation(v.Key, v.What, v.Replay)
			}
			for _, s := range r.Succ {
				k := fmt.Sprint(r.Scn, "|", s.Key)
				if !seen[k] {
					if cfg.MaxStates > 0 && states >= cfg.MaxStates {
						run.Cap(fmt.Sprintf("state cap %d", cfg.MaxStates))
						continue
					}
					seen[k] = true
					states++
					if dbg != nil {
						fmt.Fprintf(dbg, "%d %v %d %s\n", r.Scn, r.Path, s.A, s.Key)
					}
					if s.Leaf {
						leaves++
					}
				}
				// a state first seen through a leaf action must still be expanded when an
				// expandable action reaches it (result arrival order must not matter)
				if !s.Leaf && !queued[k] {
					queued[k] = true
					next = append(next, item{r.Scn, append(append([]int{}, r.Path...), s.A)})
				}
			}
		}
		if expanded == len(jl) {
			completed = depth + 1
		}
		fmt.Printf("chainmc: level %d jobs=%d/%d states=%d transitions=%d next=%d\n", depth+1, expanded, len(jl), states, run.Get("transitions"), len(next))
		frontier = next
	}
	run.Set("states", states)
	run.Set("leaf_states", leaves)
	run.Set("depth_completed", completed)
	run.Set("depth_target", cfg.Depth)
	run.Set("unexpanded_frontier", len(frontier))
	run.Set("traces_validated_against_impl", run.Get("transitions"))
}

// ReplayPath re-executes one path with checks on for the last action and prints observations.
func ReplayPath(m Model, scn int, path []int) *Result {
	cache := &stateCache{m: map[string]*State{}}
	res := &Result{Scn: scn, Cnt: map[string]int{}, Out: map[string]int{}}
	if len(path) == 0 {
		return res
	}
	st, err := rebuild(m, cache, scn, path[:len(path)-1])
	if err != nil {
		res.Err = err.Error()
		return res
	}
	c := &Ctx{Check: true, Scn: scn, Path: path[:len(path)-1], A: path[len(path)-1], res: res, model: m}
	m.Step(scn, st, path[len(path)-1], c)
	return res
}

// ReplayFile re-executes the path stored in a replay file and prints what it observes.
func ReplayFile(run *report.Run, m Model) {
	b, err := os.ReadFile(run.Replay)
	if err != nil {
		report.HarnessError("cannot read replay: %v", err)
	}
	var f struct {
		Replay struct {
			Scenario int   `json:"scenario"`
			Path     []int `json:"path"`
		} `json:"replay"`
	}
	if err := json.Unmarshal(b, &f); err != nil {
		report.HarnessError("bad replay file: %v", err)
	}
	res := ReplayPath(m, f.Replay.Scenario, f.Replay.Path)
	if res.Err != "" {
		report.HarnessError("replay: %s", res.Err)
	}
	acts := m.Actions(f.Replay.Scenario)
	for i, a := range f.Replay.Path {
		fmt.Printf("step %d: %s\n", i+1, acts[a])
	}
	for _, v := range res.Viol {
		fmt.Printf("REPRODUCED key=%s\n  %s\n", v.Key, v.What)
	}
	if len(res.Viol) == 0 {
		fmt.Println("replay finished without violation")
		os.Exit(0)
	}
	os.Exit(1)
}

// Violations returns how many violations this transition has recorded so far.
func (c *Ctx) Violations() int {
	if c.res == nil {
		return 0
	}
	return len(c.res.Viol)
}
