// Package shard runs an enumeration in N worker processes (process globals such as the
// virtual clock forbid goroutine-level sharing) and merges what they report.
package shard

import (
	"time"
	"bufio"
	"encoding/json"
	"fmt"
	"os"
	"os/exec"
	"runtime"
	"strings"
	"sync"

	"verif/mc/report"
)

type Out struct {
	Cnt     map[string]int    `json:"cnt"`
	Outc    map[string]int    `json:"out"`
	Samples []json.RawMessage `json:"samples"`
	Viol    []Viol            `json:"viol"`
	Caps    []string          `json:"caps"`
	cases   int
}

type Viol struct {
	Key    string      `json:"key"`
	What   string      `json:"what"`
	Replay interface{} `json:"replay"`
}

func (o *Out) Count(k string, n int) { o.Cnt[k] += n }
func (o *Out) Outcome(k string)      { o.Outc[k]++ }
func (o *Out) Sample(v interface{}) {
	if len(o.Samples) < 2 {
		b, _ := json.Marshal(v)
		o.Samples = append(o.Samples, b)
	}
}
func (o *Out) Violation(key, what string, replay interface{}) {
	for _, v := range o.Viol {
		if v.Key == key {
			return
		}
	}
	o.Viol = append(o.Viol, Viol{key, what, replay})
}
func (o *Out) Cap(s string) { o.Caps = append(o.Caps, s) }

// Mine reports whether case number i belongs to this shard (round robin).
type Info struct{ I, N int }

func (s Info) Mine(i int) bool { return i%s.N == s.I }

func IsWorker() bool { return os.Getenv("VERIF_SHARD") != "" }

// Run executes worker(info, out) in n processes and merges into run.
func Run(run *report.Run, n int, extraArgs []string, worker func(s Info, out *Out)) {
	if IsWorker() {
		var s Info
		fmt.Sscanf(os.Getenv("VERIF_SHARD"), "%d/%d", &s.I, &s.N)
		out := &Out{Cnt: map[string]int{}, Outc: map[string]int{}}
		worker(s, out)
		b, _ := json.Marshal(out)
		w := bufio.NewWriter(os.Stdout)
		w.WriteString("SHARDRESULT ")
		w.Write(b)
		w.WriteString("\n")
		w.Flush()
		os.Exit(0)
	}
	if n <= 0 {
		n = runtime.NumCPU()
	}
	var wg sync.WaitGroup
	var mu sync.Mutex
	failed := ""
	for i := 0; i < n; i++ {
		wg.Add(1)
		go func(i int) {
			defer wg.Done()
			args := append([]string{"-tier", run.Tier, "-verif", run.Verif}, extraArgs...)
			if !run.Deadline.IsZero() {
				args = append(args, "-budget", fmt.Sprint(run.Deadline.Sub(timeNow()).Round(1e9)))
			}
			cmd := exec.Command(os.Args[0], args...)
			cmd.Env = append(os.Environ(), fmt.Sprintf("VERIF_SHARD=%d/%d", i, n), "GOMAXPROCS=2")
			cmd.Stderr = os.Stderr
			op, _ := cmd.StdoutPipe()
			if err := cmd.Start(); err != nil {
				mu.Lock()
				failed = err.Error()
				mu.Unlock()
				return
			}
			rd := bufio.NewReaderSize(op, 1<<20)
			got := false
			for {
				line, err := rd.ReadBytes('\n')
				if strings.HasPrefix(string(line), "SHARDRESULT ") {
					var o Out
					if e := json.Unmarshal(line[len("SHARDRESULT "):], &o); e == nil {
						got = true
						mu.Lock()
						for k, v := range o.Cnt {
							run.Add(k, v)
						}
						for k, v := range o.Outc {
							for j := 0; j < v; j++ {
								run.Outcome(k)
							}
						}
						for _, s := range o.Samples {
							var v interface{}
							json.Unmarshal(s, &v)
							run.Sample(v)
						}
						for _, v := range o.Viol {
							run.Violation(v.Key, v.What, v.Replay)
						}
						for _, c := range o.Caps {
							run.Cap(c)
						}
						mu.Unlock()
					}
				}
				if err != nil {
					break
				}
			}
			err := cmd.Wait()
			if !got || err != nil {
				mu.Lock()
				failed = fmt.Sprintf("shard %d: no result (err=%v)", i, err)
				mu.Unlock()
			}
		}(i)
	}
	wg.Wait()
	if failed != "" {
		report.HarnessError("%s", failed)
	}
}

func timeNow() time.Time { return time.Now() }
