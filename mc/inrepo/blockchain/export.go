package blockchain

import (
	"github.com/idena-network/idena-go/blockchain/types"
	"github.com/idena-network/idena-go/core/appstate"
	"github.com/idena-network/idena-go/stats/collector"
)

// VerifProcessTxs runs the strict (validating) transaction processing of a block body on a
// fresh check state of the head, exactly as validateBlock does, and returns its verdict.
func (chain *Blockchain) VerifProcessTxs(txs []*types.Transaction, header *types.Header) error {
	checkState, err := chain.appState.ForCheck(chain.Head.Height())
	if err != nil {
		return err
	}
	_, _, _, _, _, err = chain.processTxs(txs, &txsExecutionContext{appState: checkState, header: header, statsCollector: collector.NewStatsCollector()})
	return err
}

// VerifAppState exposes the canonical app state.
func (chain *Blockchain) VerifAppState() *appstate.AppState { return chain.appState }

// VerifValidateOnFork validates block on top of canonical height startHeight the way
// ValidateSubChain does for the first block of a fork (speculative state with overwrite),
// while the node's own head may be on a sibling branch.
func (chain *Blockchain) VerifValidateOnFork(startHeight uint64, block *types.Block) error {
	checkState, err := chain.appState.ForCheckWithOverwrite(startHeight)
	if err != nil {
		return err
	}
	prevBlock := chain.GetBlockHeaderByHeight(startHeight)
	_, err = chain.validateBlock(checkState, block, prevBlock, nil)
	return err
}

// VerifGenesisEdit, when set, shapes the genesis state right before generateGenesis commits it (the call is
// inserted by the "edits" overlay pass of the checks that need it; it does not exist in other builds).
var VerifGenesisEdit func(*appstate.AppState)
