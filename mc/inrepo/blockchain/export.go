package blockchain

import (
	"github.com/idena-network/idena-go/blockchain/types"
	"github.com/idena-network/idena-go/core/appstate"
	"github.com/idena-network/idena-go/stats/collector"
)

// VerifProcessTxs runs the strict (validating) transaction processing of a block body on a
// fresh check state of the head, exactly as validateBlock does, and returns its verdict.
func (chain *Blockchain) VerifProcessTxs(txs []*types.Transaction, header *types.Header) error {
	checkState, err := chain.appState.ForCheck(chain.Head.Height())
	if err != nil {
		return err
	}
	_, _, _, _, _, err = chain.processTxs(txs, &txsExecutionContext{appState: checkState, header: header, statsCollector: collector.NewStatsCollector()})
	return err
}

// VerifAppState exposes the canonical app state.
func (chain *Blockchain) VerifAppState() *appstate.AppState { return chain.appState }
