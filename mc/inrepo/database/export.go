package database

import (
	"sort"

	db "github.com/tendermint/tm-db"
)

// VerifInner exposes the private overlay store of a BackedMemDb (verification build only).
func (d *BackedMemDb) VerifInner() db.DB { return d.inner }

// VerifTouched returns the sorted touched set.
func (d *BackedMemDb) VerifTouched() []string {
	var r []string
	for _, k := range d.touched.ToSlice() {
		r = append(r, k.(string))
	}
	sort.Strings(r)
	return r
}
