package consensus

import (
	"time"

	"github.com/idena-network/idena-go/blockchain"
	"github.com/idena-network/idena-go/blockchain/types"
	"github.com/idena-network/idena-go/common"
	"github.com/idena-network/idena-go/config"
	"github.com/idena-network/idena-go/core/appstate"
	"github.com/idena-network/idena-go/log"
	"github.com/idena-network/idena-go/pengings"
	"github.com/idena-network/idena-go/stats/collector"
)

// VerifNewForkResolver builds a resolver without detectors/downloader (verification build).
func VerifNewForkResolver(chain *blockchain.Blockchain) *ForkResolver {
	return NewForkResolver(nil, nil, chain, collector.NewStatsCollector())
}

// VerifOffer feeds the bundles through the real processBlocks exactly as the downloader's
// channel does and returns its verdict.
func (resolver *ForkResolver) VerifOffer(bundles []types.BlockBundle) error {
	ch := make(chan types.BlockBundle, len(bundles))
	for _, b := range bundles {
		ch <- b
	}
	close(ch)
	return resolver.processBlocks(ch, "verif-peer")
}

// ---- C07: vote counter driver

// VerifNewCounter builds an Engine that holds exactly what countVotes reads.
func VerifNewCounter(chain *blockchain.Blockchain, appState *appstate.AppState, votes *pengings.Votes, offline *blockchain.OfflineDetector, cfg *config.Config) *Engine {
	return &Engine{chain: chain, appState: appState, votes: votes, offlineDetector: offline, cfg: cfg, log: log.New(), statsCollector: collector.NewStatsCollector()}
}

func (engine *Engine) VerifCountVotes(round uint64, step uint8, parentHash common.Hash, necessaryVotesCount int, timeout time.Duration) (common.Hash, *types.FullBlockCert, error) {
	return engine.countVotes(round, step, parentHash, necessaryVotesCount, timeout)
}
