package consensus

import (
	"github.com/idena-network/idena-go/blockchain"
	"github.com/idena-network/idena-go/blockchain/types"
	"github.com/idena-network/idena-go/stats/collector"
)

// VerifNewForkResolver builds a resolver without detectors/downloader (verification build).
func VerifNewForkResolver(chain *blockchain.Blockchain) *ForkResolver {
	return NewForkResolver(nil, nil, chain, collector.NewStatsCollector())
}

// VerifOffer feeds the bundles through the real processBlocks exactly as the downloader's
// channel does and returns its verdict.
func (resolver *ForkResolver) VerifOffer(bundles []types.BlockBundle) error {
	ch := make(chan types.BlockBundle, len(bundles))
	for _, b := range bundles {
		ch <- b
	}
	close(ch)
	return resolver.processBlocks(ch, "verif-peer")
}
