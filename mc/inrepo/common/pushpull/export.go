package pushpull

// VerifSizes returns the tracker's internal sizes (pending announcers, active pull entries).
func (d *DefaultPushTracker) VerifSizes() (pending int, active int) {
	d.activePulls.Range(func(k, v interface{}) bool { active++; return true })
	return d.pendingPushes.Len(), active
}
