package mempool

import "github.com/idena-network/idena-go/crypto/ecies"

// VerifEncryptedKeyFromPackage exposes getEncryptedKeyFromPackage.
func VerifEncryptedKeyFromPackage(publicFlipKey *ecies.PrivateKey, data []byte, index int) ([]byte, error) {
	return getEncryptedKeyFromPackage(publicFlipKey, data, index)
}
