package mempool

import (
	"github.com/idena-network/idena-go/blockchain/types"
	"github.com/idena-network/idena-go/common"
	"github.com/idena-network/idena-go/crypto/ecies"
)

// VerifEncryptedKeyFromPackage exposes getEncryptedKeyFromPackage.
func VerifEncryptedKeyFromPackage(publicFlipKey *ecies.PrivateKey, data []byte, index int) ([]byte, error) {
	return getEncryptedKeyFromPackage(publicFlipKey, data, index)
}

// VerifDump exposes the pool's indexes for invariant checks.
type VerifPoolDump struct {
	Executable map[common.Address][]*types.Transaction
	Pending    map[common.Address][]*types.Transaction
	All        []*types.Transaction
	ShortCount int
	Deferred   int
}

func (pool *TxPool) VerifDump() *VerifPoolDump {
	pool.mutex.Lock()
	defer pool.mutex.Unlock()
	d := &VerifPoolDump{Executable: map[common.Address][]*types.Transaction{}, Pending: map[common.Address][]*types.Transaction{}}
	for a, e := range pool.executableTxs {
		d.Executable[a] = append([]*types.Transaction{}, e.txs...)
	}
	for a, p := range pool.pendingTxs {
		d.Pending[a] = p.Sorted()
	}
	d.All = pool.all.List(All)
	pool.shortHashAll.mutex.RLock()
	d.ShortCount = len(pool.shortHashAll.txs)
	pool.shortHashAll.mutex.RUnlock()
	d.Deferred = len(pool.deferredTxs)
	return d
}

// VerifQueueLen: number of submissions the async pool has not handed to the pool yet.
func (pool *AsyncTxPool) VerifQueueLen() int { return len(pool.queue) }
