package ceremony

import (
	"github.com/idena-network/idena-go/common"
	"github.com/idena-network/idena-go/core/state"
	"github.com/idena-network/idena-go/secstore"
)

func VerifSalt(epoch uint16, s *secstore.SecStore) []byte { return getShortAnswersSalt(epoch, s) }
func VerifWordsRnd(h [32]byte) uint64                    { return getWordsRnd(h) }

// VerifCandidates returns the lottery's candidate list of a shard (nil before the lottery).
func (vc *ValidationCeremony) VerifCandidates(shard common.ShardId) []common.Address {
	if vc.shardCandidates == nil || vc.shardCandidates[shard] == nil {
		return nil
	}
	return vc.getCandidatesAddresses(shard)
}

func (vc *ValidationCeremony) VerifLotteryFinished() bool { return vc.lottery.finished }

func (vc *ValidationCeremony) VerifShardFlips(shard common.ShardId) int {
	if vc.shardCandidates == nil || vc.shardCandidates[shard] == nil {
		return 0
	}
	return len(vc.shardCandidates[shard].flips)
}

// VerifDetermineNewIdentityState exposes the status decision table.
func VerifDetermineNewIdentityState(identity state.Identity, shortScore, longScore, totalScore float32, totalQualifiedFlips uint32, missed, noQualShort, nonQualLong, candidateToNewbieFixEnabled, enableUpgrade10 bool, shortQualifiedFlipsCount uint32, enableUpgrade12 bool) state.IdentityState {
	return determineNewIdentityState(identity, shortScore, longScore, totalScore, totalQualifiedFlips, missed, noQualShort, nonQualLong, candidateToNewbieFixEnabled, enableUpgrade10, shortQualifiedFlipsCount, enableUpgrade12)
}
