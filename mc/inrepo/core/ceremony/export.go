package ceremony

import (
	"github.com/idena-network/idena-go/common"
	"github.com/idena-network/idena-go/core/appstate"
	"github.com/idena-network/idena-go/database"
	"github.com/idena-network/idena-go/log"
	"github.com/idena-network/idena-go/core/state"
	"github.com/idena-network/idena-go/secstore"
)

func VerifSalt(epoch uint16, s *secstore.SecStore) []byte { return getShortAnswersSalt(epoch, s) }
func VerifWordsRnd(h [32]byte) uint64                    { return getWordsRnd(h) }

// VerifCandidates returns the lottery's candidate list of a shard (nil before the lottery).
func (vc *ValidationCeremony) VerifCandidates(shard common.ShardId) []common.Address {
	if vc.shardCandidates == nil || vc.shardCandidates[shard] == nil {
		return nil
	}
	return vc.getCandidatesAddresses(shard)
}

func (vc *ValidationCeremony) VerifLotteryFinished() bool { return vc.lottery.finished }

func (vc *ValidationCeremony) VerifShardFlips(shard common.ShardId) int {
	if vc.shardCandidates == nil || vc.shardCandidates[shard] == nil {
		return 0
	}
	return len(vc.shardCandidates[shard].flips)
}

// VerifDetermineNewIdentityState exposes the status decision table.
func VerifDetermineNewIdentityState(identity state.Identity, shortScore, longScore, totalScore float32, totalQualifiedFlips uint32, missed, noQualShort, nonQualLong, candidateToNewbieFixEnabled, enableUpgrade10 bool, shortQualifiedFlipsCount uint32, enableUpgrade12 bool) state.IdentityState {
	return determineNewIdentityState(identity, shortScore, longScore, totalScore, totalQualifiedFlips, missed, noQualShort, nonQualLong, candidateToNewbieFixEnabled, enableUpgrade10, shortQualifiedFlipsCount, enableUpgrade12)
}

// ---- C16: lottery driver

// VerifNewLottery builds a ceremony object that holds exactly what the lottery reads: the
// state (shards, identities), the epoch database with the lottery identities and seed.
func VerifNewLottery(appState *appstate.AppState, edb *database.EpochDb) *ValidationCeremony {
	return &ValidationCeremony{appState: appState, epochDb: edb, lottery: &lottery{}, log: log.New()}
}

type VerifShard struct {
	Candidates          []common.Address
	PubKeys             [][]byte
	Flips               [][]byte
	FlipAuthor          map[string]common.Address
	Short, Long         [][]int
	CandidatesPerAuthor map[int][]int
	AuthorsPerCandidate map[int][]int
}

func (vc *ValidationCeremony) VerifShards() map[common.ShardId]*VerifShard {
	out := map[common.ShardId]*VerifShard{}
	for id, s := range vc.shardCandidates {
		v := &VerifShard{Flips: s.flips, FlipAuthor: s.flipAuthorMap, Short: s.shortFlipsPerCandidate, Long: s.longFlipsPerCandidate}
		for _, c := range s.candidates {
			v.Candidates = append(v.Candidates, c.Address)
			v.PubKeys = append(v.PubKeys, c.PubKey)
		}
		if l := vc.shardLotteries[id]; l != nil {
			v.CandidatesPerAuthor, v.AuthorsPerCandidate = l.candidatesPerAuthor, l.authorsPerCandidate
		}
		out[id] = v
	}
	return out
}

func (vc *ValidationCeremony) VerifPackageIndex(addr, author common.Address) int {
	return vc.getPrivateKeyPackageIndex(addr, author)
}
