package ceremony

import (
	"bytes"

	"github.com/idena-network/idena-go/blockchain"
	"github.com/idena-network/idena-go/blockchain/attachments"
	"github.com/idena-network/idena-go/common"
	"github.com/idena-network/idena-go/common/eventbus"
	"github.com/idena-network/idena-go/config"
	"github.com/idena-network/idena-go/core/appstate"
	"github.com/idena-network/idena-go/core/state"
	"github.com/idena-network/idena-go/core/validators"
	"github.com/idena-network/idena-go/database"
	"github.com/idena-network/idena-go/log"
	"github.com/idena-network/idena-go/stats/collector"
	dbm "github.com/tendermint/tm-db"
)

type verifNoSync struct{}

func (verifNoSync) IsSyncing() bool { return false }

// VerifShardedEpoch drives the real ApplyNewEpoch over a ceremony with len(sizes) shards. Every candidate is a
// Verified identity without required flips that sent short and long answers; masks[s][i] is the evidence bitmap
// candidate i of shard s+1 had recorded in a block (bit j = candidate j of its own shard is approved; -1 = it
// sent no evidence). Returned: whether the epoch failed as a whole and the new status of every candidate.
func VerifShardedEpoch(sizes []int, masks [][]int) (bool, [][]state.IdentityState) {
	db := dbm.NewMemDB()
	appState, err := appstate.NewAppState(db, eventbus.New())
	if err != nil {
		panic(err)
	}
	appState.ValidatorsCache = validators.NewValidatorsCache(appState.IdentityState, appState.State.GodAddress())
	appState.ValidatorsCache.Load()
	cfg := &config.Config{Consensus: blockchain.GetDefaultConsensusConfig()}
	epochDb := database.NewEpochDb(db, 1)
	mkAddr := func(shard, i int) common.Address { return common.Address{byte(shard), byte(i + 1)} }
	shardCandidates := map[common.ShardId]*candidatesOfShard{}
	candidateIndexes := map[common.Address]int{}
	q := NewQualification(cfg, epochDb)
	for s := range sizes {
		shardId := common.ShardId(s + 1)
		shard := &candidatesOfShard{
			candidates:        make([]*candidate, 0),
			flips:             make([][]byte, 0),
			flipsPerAuthor:    make(map[int][][]byte),
			flipAuthorMap:     make(map[string]common.Address),
			longFlipsToSolve:  map[common.Address][][]byte{},
			shortFlipsToSolve: map[common.Address][][]byte{},
			nonCandidates:     make([]common.Address, 0),
		}
		for i := 0; i < sizes[s]; i++ {
			addr := mkAddr(s+1, i)
			appState.State.SetState(addr, state.Verified)
			appState.State.SetShardId(addr, shardId)
			shard.candidates = append(shard.candidates, &candidate{Address: addr})
			shard.shortFlipsPerCandidate = append(shard.shortFlipsPerCandidate, []int{})
			shard.longFlipsPerCandidate = append(shard.longFlipsPerCandidate, []int{})
			candidateIndexes[addr] = i // as calculateCeremonyCandidates does
			q.addAnswers(true, addr, attachments.CreateShortAnswerAttachment([]byte{0x1}, 1, 0))
			q.addAnswers(false, addr, []byte{0x1})
		}
		shardCandidates[shardId] = shard
	}
	appState.State.SetShardsNum(uint32(len(sizes)))
	for s := range sizes {
		for i := 0; i < sizes[s]; i++ {
			m := masks[s][i]
			if m < 0 {
				continue
			}
			bm := common.NewBitmap(uint32(sizes[s]))
			for j := 0; j < sizes[s]; j++ {
				if m&(1<<uint(j)) != 0 {
					bm.Add(uint32(j))
				}
			}
			buf := new(bytes.Buffer)
			bm.WriteTo(buf)
			epochDb.WriteEvidenceMap(mkAddr(s+1, i), buf.Bytes())
		}
	}
	vc := &ValidationCeremony{
		appState:           appState,
		epochDb:            epochDb,
		qualification:      q,
		config:             cfg,
		epoch:              1,
		shardCandidates:    shardCandidates,
		candidateIndexes:   candidateIndexes,
		epochApplyingCache: make(map[uint64]epochApplyingCache),
		syncer:             verifNoSync{},
		log:                log.New(),
	}
	res := vc.ApplyNewEpoch(100, appState, collector.NewStatsCollector())
	out := make([][]state.IdentityState, len(sizes))
	for s := range sizes {
		for i := 0; i < sizes[s]; i++ {
			out[s] = append(out[s], appState.State.GetIdentityState(mkAddr(s+1, i)))
		}
	}
	return res.Failed, out
}
