package flip

import "github.com/idena-network/idena-go/blockchain/types"

// VerifAddNewFlip runs what the flip queue consumer runs for a flip received from the network.
func (fp *Flipper) VerifAddNewFlip(f *types.Flip) error { return fp.addNewFlip(f, false) }
