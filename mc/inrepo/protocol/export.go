package protocol

import (
	"github.com/idena-network/idena-go/common"
	"github.com/idena-network/idena-go/common/pushpull"
	"github.com/idena-network/idena-go/verifhook/vsync"
	"github.com/libp2p/go-libp2p-core/peer"
)

// VerifCodecs lists constructors of every wire type of this package that has a
// ToBytes/FromBytes pair (verification build only).
func VerifCodecs() map[string]func() interface{} {
	return map[string]func() interface{}{
		"protocol.Msg":           func() interface{} { return new(Msg) },
		"protocol.handshakeData": func() interface{} { return new(handshakeData) },
		"protocol.pushPullHash":  func() interface{} { return new(pushPullHash) },
		"protocol.updateShardId": func() interface{} { return new(updateShardId) },
		"protocol.msgBatch":      func() interface{} { return new(msgBatch) },
		"protocol.disconnect":    func() interface{} { return new(disconnect) },
		"protocol.blockRange":    func() interface{} { return new(blockRange) },
	}
}

// ---- C20: push/pull driver

// VerifNewPPM returns a manager with one entry holder registered under the tx push type.
func VerifNewPPM(holder pushpull.Holder) *PushPullManager {
	m := NewPushPullManager()
	m.AddEntryHolder(pushTx, holder)
	return m
}

// VerifAddPush is the announcement entry point (what handle() calls for a Push message).
func (m *PushPullManager) VerifAddPush(p string, h common.Hash128) {
	m.addPush(peer.ID(p), pushPullHash{Type: pushTx, Hash: h})
}

// VerifLoop runs the real forwarding loop for the holder (blocks forever).
func (m *PushPullManager) VerifLoop(holder pushpull.Holder) { m.loop(pushTx, holder) }

// VerifRecvRequest receives the next emitted pull request (cooperative wait under the scheduler).
func (m *PushPullManager) VerifRecvRequest() (string, common.Hash128) {
	r := vsync.Recv(m.requests).(pullRequest)
	return string(r.peer), r.hash.Hash
}
