package protocol

import (
	"errors"
	"io"
	"sync"
	"time"

	"github.com/coreos/go-semver/semver"
	mapset "github.com/deckarep/golang-set"
	"github.com/idena-network/idena-go/blockchain"
	"github.com/idena-network/idena-go/blockchain/types"
	"github.com/idena-network/idena-go/common"
	"github.com/idena-network/idena-go/common/eventbus"
	"github.com/idena-network/idena-go/common/pushpull"
	"github.com/idena-network/idena-go/config"
	"github.com/idena-network/idena-go/core/appstate"
	"github.com/idena-network/idena-go/core/flip"
	"github.com/idena-network/idena-go/core/mempool"
	"github.com/idena-network/idena-go/core/state"
	"github.com/idena-network/idena-go/core/state/snapshot"
	"github.com/idena-network/idena-go/core/upgrade"
	"github.com/idena-network/idena-go/events"
	"github.com/idena-network/idena-go/ipfs"
	"github.com/idena-network/idena-go/keystore"
	"github.com/idena-network/idena-go/log"
	"github.com/idena-network/idena-go/pengings"
	"github.com/idena-network/idena-go/subscriptions"
	"github.com/idena-network/idena-go/verifhook/vsync"
	"github.com/libp2p/go-libp2p-core/peer"
	"github.com/patrickmn/go-cache"
)

// VerifCodecs lists constructors of every wire type of this package that has a
// ToBytes/FromBytes pair (verification build only).
func VerifCodecs() map[string]func() interface{} {
	return map[string]func() interface{}{
		"protocol.Msg":           func() interface{} { return new(Msg) },
		"protocol.handshakeData": func() interface{} { return new(handshakeData) },
		"protocol.pushPullHash":  func() interface{} { return new(pushPullHash) },
		"protocol.updateShardId": func() interface{} { return new(updateShardId) },
		"protocol.msgBatch":      func() interface{} { return new(msgBatch) },
		"protocol.disconnect":    func() interface{} { return new(disconnect) },
		"protocol.blockRange":    func() interface{} { return new(blockRange) },
	}
}

// ---- C20: push/pull driver

// VerifNewPPM returns a manager with one entry holder registered under the tx push type.
func VerifNewPPM(holder pushpull.Holder) *PushPullManager {
	m := NewPushPullManager()
	m.AddEntryHolder(pushTx, holder)
	return m
}

// VerifAddPush is the announcement entry point (what handle() calls for a Push message).
func (m *PushPullManager) VerifAddPush(p string, h common.Hash128) {
	m.addPush(peer.ID(p), pushPullHash{Type: pushTx, Hash: h})
}

// VerifLoop runs the real forwarding loop for the holder (blocks forever).
func (m *PushPullManager) VerifLoop(holder pushpull.Holder) { m.loop(pushTx, holder) }

// VerifRecvRequest receives the next emitted pull request (cooperative wait under the scheduler).
func (m *PushPullManager) VerifRecvRequest() (string, common.Hash128) {
	r := vsync.Recv(m.requests).(pullRequest)
	return string(r.peer), r.hash.Hash
}

// VerifFillRequests fills the outgoing pull queue to its capacity with requests for filler hashes (a burst of
// announcements while the sender lags); VerifDrainRequests empties it in one step. Both use the plain channel:
// no thread waits on it while they run.
func (m *PushPullManager) VerifFillRequests() int {
	n := 0
	for {
		select {
		case m.requests <- pullRequest{peer: "filler", hash: pushPullHash{Type: pushTx, Hash: common.Hash128{0xff, 0xff, byte(n), byte(n >> 8)}}}:
			n++
		default:
			return n
		}
	}
}

func (m *PushPullManager) VerifDrainRequests() (fillers int, others []string) {
	for {
		select {
		case r := <-m.requests:
			if r.peer == "filler" {
				fillers++
			} else {
				others = append(others, string(r.peer))
			}
		default:
			return
		}
	}
}

// ---- C12: message delivery driver

// verifFeed is the transport of the verification peer: frames are handed over one by one.
type verifFeed struct{ next []byte }

func (f *verifFeed) ReadMsg() ([]byte, error) {
	if f.next == nil {
		return nil, io.EOF
	}
	b := f.next
	f.next = nil
	return b, nil
}
func (f *verifFeed) ReleaseMsg([]byte)           {}
func (f *verifFeed) NextMsgLen() (int, error)    { return len(f.next), nil }
func (f *verifFeed) Read(b []byte) (int, error)  { return 0, io.EOF }
func (f *verifFeed) Write(b []byte) (int, error) { return len(b), nil }
func (f *verifFeed) WriteMsg(b []byte) error     { return nil }
func (f *verifFeed) Close() error                { return nil }

type verifChecker struct{}

func (verifChecker) IsRunning() bool { return false }

// VerifNode is a gossip handler with one connected peer whose transport is fed by the harness.
type VerifNode struct {
	H    *IdenaGossipHandler
	P    *protoPeer
	feed *verifFeed
	fs   *fullSync
}

func VerifNewNode(chain *blockchain.Blockchain, appState *appstate.AppState, ipfsProxy ipfs.Proxy, proposals *pengings.Proposals, votes *pengings.Votes, txpool *mempool.TxPool, fp *flip.Flipper, bus eventbus.Bus, keys *mempool.KeysPool) *VerifNode {
	logger := log.New()
	h := &IdenaGossipHandler{
		cfg:                 config.P2P{},
		bcn:                 chain,
		peers:               newPeerSet(),
		incomeBlocks:        make(chan *types.Block, 1000),
		incomeBatches:       &sync.Map{},
		proposals:           proposals,
		votes:               votes,
		pushPullManager:     NewPushPullManager(),
		txpool:              txpool, // synchronous: a panic below the pool's recover reaches the caller
		txChan:              make(chan *events.NewTxEvent, 1000),
		flipKeyChan:         make(chan *events.NewFlipKeyEvent, 2000),
		flipKeysPackageChan: make(chan *events.NewFlipKeysPackageEvent, 2000),
		flipper:             fp,
		bus:                 bus,
		flipKeyPool:         keys,
		appVersion:          "1.0.0",
		log:                 logger,
		throttlingLogger:    log.NewThrottlingLogger(logger),
		pendingPeers:        make(map[peer.ID]struct{}),
		metrics:             new(metricCollector),
		ceremonyChecker:     verifChecker{},
		connManager:         NewConnManager(nil, config.P2P{}),
	}
	h.pushPullManager.AddEntryHolder(pushVote, pushpull.NewDefaultHolder(1, pushpull.NewDefaultPushTracker(time.Millisecond*300)))
	h.pushPullManager.AddEntryHolder(pushBlock, pushpull.NewDefaultHolder(1, pushpull.NewDefaultPushTracker(time.Second*3)))
	h.pushPullManager.AddEntryHolder(pushProof, pushpull.NewDefaultHolder(1, pushpull.NewDefaultPushTracker(time.Second*1)))
	h.pushPullManager.AddEntryHolder(pushFlip, pushpull.NewDefaultHolder(1, pushpull.NewDefaultPushTracker(time.Second*5)))
	h.pushPullManager.AddEntryHolder(pushKeyPackage, keys)
	h.pushPullManager.AddEntryHolder(pushTx, txpool)
	h.registerMetrics()
	feed := &verifFeed{}
	id := peer.ID("verif-peer")
	vers, _ := semver.NewVersion("1.0.0")
	p := &protoPeer{
		id:                   id,
		prettyId:             "verif-peer",
		rw:                   feed,
		queuedRequests:       make(chan *request, queuedRequestsSize),
		highPriorityRequests: make(chan *request, queuedHighPriorityRequestsSize),
		pushQueue:            make(chan *queueItem, pushQueueSize),
		flipKeyQueue:         make(chan *queueItem, flipKeyQueueSize),
		term:                 make(chan struct{}),
		finished:             make(chan struct{}),
		msgCache:             cache.New(msgCacheAliveTime, msgCacheGcTime),
		log:                  logger,
		throttlingLogger:     log.NewThrottlingLogger(logger),
		metrics:              h.metrics,
		transportErr:         make(chan error, 1),
		knownHeight:          &syncHeight{},
		potentialHeight:      &syncHeight{},
		version:              vers,
		supportedFeatures:    map[PeerFeature]struct{}{},
	}
	h.peers.Register(p)
	h.connManager.inboundPeers[id] = common.MultiShard
	n := &VerifNode{H: h, P: p, feed: feed}
	n.fs = NewFullSync(h, logger, chain, ipfsProxy, appState, mapset.NewSet(), 0, nil)
	return n
}

// Deliver hands one transport frame to the real handle().
func (n *VerifNode) Deliver(frame []byte) error {
	n.feed.next = frame
	// drain what the handler queued for the peer so that queues never fill up
	for len(n.P.queuedRequests) > 0 {
		<-n.P.queuedRequests
	}
	for len(n.P.highPriorityRequests) > 0 {
		<-n.P.highPriorityRequests
	}
	return n.H.handle(n.P)
}

// ExpectBatch registers an open block-range request so that a BlocksRange answer is consumed.
func (n *VerifNode) ExpectBatch(id uint32) { n.ExpectBatchOf(id, 10000) }

// ExpectBatchOf: the open request asked for `requested` blocks (GetBlocksRange sizes the channel so).
func (n *VerifNode) ExpectBatchOf(id uint32, requested int) {
	pb, _ := n.H.incomeBatches.LoadOrStore(n.P.id, &sync.Map{})
	pb.(*sync.Map).Store(id, &batch{headers: make(chan *block, requested), p: n.P})
}

// ValidateRange decodes payload as a block range like handle() and, if valid, validates every
// header the way fullSync.processBatch does. Returns the number of headers validated.
func (n *VerifNode) ValidateRange(payload []byte) (int, error) {
	var r blockRange
	if err := r.FromBytes(payload); err != nil {
		return 0, err
	}
	if !r.IsValid() {
		return 0, errors.New("invalid range")
	}
	n.fs.deferredHeaders = nil
	cnt := 0
	for _, b := range r.Blocks {
		cnt++
		if err := n.fs.validateHeader(b, n.P); err != nil {
			return cnt, err
		}
		n.fs.deferredHeaders = append(n.fs.deferredHeaders, blockPeer{*b, n.P.id})
	}
	return cnt, nil
}

// VerifFrame wraps a payload into a transport frame like makeMsg does.
func VerifFrame(code uint64, payload []byte) []byte {
	msg, err := (&Msg{Code: code, Payload: payload}).ToBytes()
	if err != nil {
		panic(err)
	}
	return Encode(code, msg)
}

// VerifRangeBytes encodes a block range of headers with certificates.
func VerifRangeBytes(batchId uint32, headers []*types.Header, certs []*types.BlockCert) []byte {
	r := &blockRange{BatchId: batchId}
	for i, h := range headers {
		b := &block{Header: h}
		if i < len(certs) {
			b.Cert = certs[i]
		}
		r.Blocks = append(r.Blocks, b)
	}
	out, _ := r.ToBytes()
	return out
}

func VerifPushBytes(t uint32, h common.Hash128) []byte {
	p := pushPullHash{Type: pushType(t), Hash: h}
	out, _ := p.ToBytes()
	return out
}

func VerifBatchBytes(items ...[]byte) []byte {
	m := &msgBatch{}
	for _, i := range items {
		m.Data = append(m.Data, &batchItem{Payload: i})
	}
	out, _ := m.ToBytes()
	return out
}

var VerifCodes = map[string]uint64{
	"Handshake": Handshake, "ProposeBlock": ProposeBlock, "ProposeProof": ProposeProof, "Vote": Vote, "NewTx": NewTx,
	"GetBlockByHash": GetBlockByHash, "GetBlocksRange": GetBlocksRange, "BlocksRange": BlocksRange, "FlipBody": FlipBody,
	"FlipKey": FlipKey, "SnapshotManifest": SnapshotManifest, "GetForkBlockRange": GetForkBlockRange, "FlipKeysPackage": FlipKeysPackage,
	"Push": Push, "Pull": Pull, "Block": Block, "UpdateShardId": UpdateShardId, "BatchPush": BatchPush, "BatchFlipKey": BatchFlipKey, "Disconnect": Disconnect,
}

// ---- C09 / C11: fast-sync driver

// VerifFastSync wraps the real fastSync: the harness plays the peer (it hands over headers with their
// certificates and identity diffs), every decision is taken by preConsuming / validateHeader /
// applyDeferredBlocks as processBatch takes them.
type VerifFastSync struct{ fs *fastSync }

func VerifNewFastSync(chain *blockchain.Blockchain, appState *appstate.AppState, ipfsProxy ipfs.Proxy, manifest *snapshot.Manifest, bus eventbus.Bus, coinbase common.Address, keyStore *keystore.KeyStore, subManager *subscriptions.Manager, upgrader *upgrade.Upgrader) *VerifFastSync {
	logger := log.New()
	h := &IdenaGossipHandler{peers: newPeerSet(), connManager: NewConnManager(nil, config.P2P{}), log: logger}
	return &VerifFastSync{NewFastSync(h, logger, chain, ipfsProxy, appState, mapset.NewSet(), manifest, nil, bus, coinbase, keyStore, subManager, upgrader)}
}

func (v *VerifFastSync) PreConsuming(head *types.Header) (uint64, error) {
	return v.fs.preConsuming(head)
}

// Feed is one iteration of processBatch's loop for a received header.
func (v *VerifFastSync) Feed(h *types.Header, cert *types.BlockCert, diff *state.IdentityStateDiff) error {
	b := &block{Header: h, Cert: cert, IdentityDiff: diff}
	if err := v.fs.validateHeader(b); err != nil {
		return err
	}
	v.fs.deferredHeaders = append(v.fs.deferredHeaders, blockPeer{*b, peer.ID("verif-peer")})
	if b.Cert != nil && !b.Cert.Empty() {
		if _, err := v.fs.applyDeferredBlocks(); err != nil {
			return err
		}
	}
	return nil
}

// Deferred returns how many validated headers wait for a certified descendant.
func (v *VerifFastSync) Deferred() int { return len(v.fs.deferredHeaders) }

// IdentityStateDB is the preliminary identity state the headers were replayed onto.
func (v *VerifFastSync) IdentityStateDB() *state.IdentityStateDB { return v.fs.identityStateDB }
