package protocol

// VerifCodecs lists constructors of every wire type of this package that has a
// ToBytes/FromBytes pair (verification build only).
func VerifCodecs() map[string]func() interface{} {
	return map[string]func() interface{}{
		"protocol.Msg":           func() interface{} { return new(Msg) },
		"protocol.handshakeData": func() interface{} { return new(handshakeData) },
		"protocol.pushPullHash":  func() interface{} { return new(pushPullHash) },
		"protocol.updateShardId": func() interface{} { return new(updateShardId) },
		"protocol.msgBatch":      func() interface{} { return new(msgBatch) },
		"protocol.disconnect":    func() interface{} { return new(disconnect) },
		"protocol.blockRange":    func() interface{} { return new(blockRange) },
	}
}
