package main

import (
	"bytes"
	"go/ast"
	"go/format"
	"go/parser"
	"go/token"
	"path/filepath"
)

// lotteryCore derives (*ValidationCeremony).VerifLotteryCore from calculateCeremonyCandidates:
// the function body up to and including `vc.lottery.finished = true` (everything after that
// line only decides what this node loads/broadcasts). C16 drives the lottery through it.
func lotteryCore() {
	abs := filepath.Join(*repo, "core", "ceremony", "ceremony.go")
	fset := token.NewFileSet()
	src := readCur(abs)
	f, err := parser.ParseFile(fset, abs, src, parser.ParseComments)
	must(err)
	var fd *ast.FuncDecl
	for _, d := range f.Decls {
		if x, ok := d.(*ast.FuncDecl); ok && x.Name.Name == "calculateCeremonyCandidates" && x.Recv != nil {
			fd = x
		}
	}
	if fd == nil {
		fail("lotterycore: calculateCeremonyCandidates not found")
	}
	start, end := fset.Position(fd.Pos()).Offset, fset.Position(fd.End()).Offset
	text := src[start:end]
	const anchor = "vc.lottery.finished = true"
	i := bytes.Index(text, []byte(anchor))
	if i < 0 || bytes.Count(text, []byte(anchor)) != 1 {
		fail("lotterycore: anchor %q not found exactly once", anchor)
	}
	body := append([]byte{}, text[:i+len(anchor)]...)
	body = append(body, []byte("\n}\n")...)
	const sig = "calculateCeremonyCandidates(restore bool)"
	if bytes.Count(body, []byte(sig)) != 1 {
		fail("lotterycore: signature %q not found", sig)
	}
	body = bytes.Replace(body, []byte(sig), []byte("VerifLotteryCore(restore bool)"), 1)
	out := append(append([]byte{}, src...), []byte("\n\n// derived by vbuild from calculateCeremonyCandidates (verification build only)\n")...)
	out = append(out, body...)
	fm, err := format.Source(out)
	must(err)
	writeGen(abs, fm)
}
