package main

import (
	"bytes"
	"go/ast"
	"go/format"
	"go/parser"
	"go/token"
	"path/filepath"
)

// proposeWith derives (*Blockchain).VerifProposeBlockWithTxs from the current ProposeBlock:
// the statement `txs := chain.txpool.BuildBlockTransactions()` becomes a parameter. The
// derived function is appended to blockchain.go in the overlay, so the *building path* used
// as reference by C03/C06 always tracks the repository's own ProposeBlock.
func proposeWith() {
	abs := filepath.Join(*repo, "blockchain", "blockchain.go")
	fset := token.NewFileSet()
	src := readCur(abs)
	f, err := parser.ParseFile(fset, abs, src, parser.ParseComments)
	must(err)
	var fd *ast.FuncDecl
	for _, d := range f.Decls {
		if x, ok := d.(*ast.FuncDecl); ok && x.Name.Name == "ProposeBlock" && x.Recv != nil {
			fd = x
		}
	}
	if fd == nil {
		fail("proposewith: ProposeBlock not found")
	}
	// textual copy of the function
	start, end := fset.Position(fd.Pos()).Offset, fset.Position(fd.End()).Offset
	text := string(src[start:end])
	const anchor = "txs := chain.txpool.BuildBlockTransactions()"
	if bytes.Count([]byte(text), []byte(anchor)) != 1 {
		fail("proposewith: anchor %q not found exactly once in ProposeBlock", anchor)
	}
	text = string(bytes.Replace([]byte(text), []byte(anchor), []byte("txs := verifTxs"), 1))
	const sig = "ProposeBlock(proof []byte)"
	if bytes.Count([]byte(text), []byte(sig)) != 1 {
		fail("proposewith: signature %q not found", sig)
	}
	text = string(bytes.Replace([]byte(text), []byte(sig), []byte("VerifProposeBlockWithTxs(proof []byte, verifTxs []*types.Transaction)"), 1))
	out := append(append([]byte{}, src...), []byte("\n\n// derived by vbuild from ProposeBlock (verification build only)\n"+text+"\n")...)
	fm, err := format.Source(out)
	must(err)
	writeGen(abs, fm)
}
