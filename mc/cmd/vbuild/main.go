// vbuild generates a `go build -overlay` description for /repo's current working
// tree. Nothing in /repo is touched. Passes:
//
//	ipfs-stub : derive a kubo-free ipfs/ipfs.go from the current file by AST filtering
//	vclock    : rewrite time.Now/Since/Sleep/After/NewTimer/NewTicker/AfterFunc/Until
//	            in the listed packages to verifhook.*
//	inrepo    : add every file under <verif>/mc/inrepo/<pkg>/ to /repo/<pkg>/ (export shims)
//	hooks     : add the virtual package /repo/verifhook (sources in <verif>/mc/hooks/verifhook)
//	gostmt    : rewrite `go f(...)` statements in listed packages to verifhook.Go(site, func(){...})
//	maporder  : rewrite `for k, v := range m` over map types in listed files (see maporder.go)
//	syncshim  : re-point "sync" import to verifhook/vsync in listed files
//	mutant    : apply a textual mutant (file, old, new) — detection demos only
//
// usage: vbuild -repo /repo -verif /verif -out DIR [-vclock pkgs] [-gostmt pkgs] [-maporder pkgs] [-syncshim files] [-mutant file]
package main

import (
	"bytes"
	"crypto/sha256"
	"encoding/hex"
	"encoding/json"
	"flag"
	"fmt"
	"go/ast"
	"go/format"
	"go/parser"
	"go/token"
	"os"
	"path/filepath"
	"sort"
	"strconv"
	"strings"
)

type overlay struct {
	Replace map[string]string
}

var (
	repo   = flag.String("repo", "/repo", "repository root")
	verif  = flag.String("verif", "/verif", "verif root")
	out    = flag.String("out", "", "output directory (generated files + overlay.json)")
	vclock = flag.String("vclock", "", "comma separated package dirs (relative to repo) for the virtual clock rewrite")
	gostmt = flag.String("gostmt", "", "comma separated package dirs for the go-statement rewrite")
	mapord = flag.String("maporder", "", "comma separated package dirs for the map-order rewrite")
	syncsh = flag.String("syncshim", "", "comma separated package dirs or files for the sync shim")
	mutant = flag.String("mutant", "", "mutant description file (json: [{file,old,new}])")
	edits  = flag.String("edits", "", "instrumentation edits (same format as -mutant): seams a driver needs inside a function, e.g. a genesis-state hook")
	inrepo = flag.String("inrepo", "", "comma separated inrepo sets to include (dir names under mc/inrepo); empty = all")
)

var ov = overlay{Replace: map[string]string{}}
var hashes = map[string]string{}

// current content of a repo file, taking earlier passes into account
func readCur(abs string) []byte {
	if p, ok := ov.Replace[abs]; ok {
		b, err := os.ReadFile(p)
		must(err)
		return b
	}
	b, err := os.ReadFile(abs)
	must(err)
	return b
}

func writeGen(abs string, content []byte) {
	rel, err := filepath.Rel(*repo, abs)
	must(err)
	dst := filepath.Join(*out, "gen", rel)
	must(os.MkdirAll(filepath.Dir(dst), 0o755))
	must(os.WriteFile(dst, content, 0o644))
	ov.Replace[abs] = dst
	h := sha256.Sum256(content)
	hashes[rel] = hex.EncodeToString(h[:8])
}

func must(err error) {
	if err != nil {
		fmt.Fprintln(os.Stderr, "HARNESS-BUILD-FAILED vbuild:", err)
		os.Exit(2)
	}
}

func fail(format string, a ...interface{}) {
	must(fmt.Errorf(format, a...))
}

func main() {
	flag.Parse()
	if *out == "" {
		fail("-out required")
	}
	must(os.MkdirAll(*out, 0o755))
	os.RemoveAll(filepath.Join(*out, "gen"))

	if *edits != "" {
		applyMutant(*edits)
	}
	if *mutant != "" {
		applyMutant(*mutant)
	}
	ipfsStub()
	addHooks()
	addInrepo()
	for _, p := range split(*vclock) {
		forEachGoFile(p, vclockFile)
	}
	for _, p := range split(*gostmt) {
		forEachGoFile(p, gostmtFile)
	}
	for _, p := range split(*mapord) {
		forEachGoFile(p, maporderFile)
	}
	for _, p := range split(*syncsh) {
		forEachGoFile(p, syncshimFile)
	}
	if *vclock != "" {
		proposeWith()
		lotteryCore()
	}
	b, _ := json.MarshalIndent(ov, "", " ")
	must(os.WriteFile(filepath.Join(*out, "overlay.json"), b, 0o644))
	hb, _ := json.MarshalIndent(hashes, "", " ")
	must(os.WriteFile(filepath.Join(*out, "hashes.json"), hb, 0o644))
}

func split(s string) []string {
	var r []string
	for _, x := range strings.Split(s, ",") {
		x = strings.TrimSpace(x)
		if x != "" {
			r = append(r, x)
		}
	}
	return r
}

func forEachGoFile(p string, f func(abs string)) {
	abs := filepath.Join(*repo, p)
	st, err := os.Stat(abs)
	must(err)
	if !st.IsDir() {
		f(abs)
		return
	}
	ents, err := os.ReadDir(abs)
	must(err)
	for _, e := range ents {
		n := e.Name()
		if e.IsDir() || !strings.HasSuffix(n, ".go") || strings.HasSuffix(n, "_test.go") {
			continue
		}
		f(filepath.Join(abs, n))
	}
}

// ---------------------------------------------------------------- mutant

type mutantEdit struct {
	File string `json:"file"`
	Old  string `json:"old"`
	New  string `json:"new"`
}

func applyMutant(path string) {
	b, err := os.ReadFile(path)
	must(err)
	var edits []mutantEdit
	must(json.Unmarshal(b, &edits))
	for _, e := range edits {
		abs := filepath.Join(*repo, e.File)
		cur := readCur(abs)
		if bytes.Count(cur, []byte(e.Old)) != 1 {
			fail("mutant anchor not unique in %s: %q (%d matches)", e.File, e.Old, bytes.Count(cur, []byte(e.Old)))
		}
		writeGen(abs, bytes.Replace(cur, []byte(e.Old), []byte(e.New), 1))
	}
}

// ---------------------------------------------------------------- hooks / inrepo

func addHooks() {
	src := filepath.Join(*verif, "mc", "hooks")
	filepath.Walk(src, func(p string, info os.FileInfo, err error) error {
		must(err)
		if info.IsDir() || !strings.HasSuffix(p, ".go") {
			return nil
		}
		rel, _ := filepath.Rel(src, p)
		ov.Replace[filepath.Join(*repo, rel)] = p
		return nil
	})
}

func addInrepo() {
	src := filepath.Join(*verif, "mc", "inrepo")
	filepath.Walk(src, func(p string, info os.FileInfo, err error) error {
		must(err)
		if info.IsDir() || !strings.HasSuffix(p, ".go") {
			return nil
		}
		rel, _ := filepath.Rel(src, p)
		dir, file := filepath.Split(rel)
		ov.Replace[filepath.Join(*repo, dir, "zz_verif_"+file)] = p
		return nil
	})
}

// ---------------------------------------------------------------- ipfs stub

func ipfsStub() {
	abs := filepath.Join(*repo, "ipfs", "ipfs.go")
	fset := token.NewFileSet()
	f, err := parser.ParseFile(fset, abs, readCur(abs), parser.ParseComments)
	must(err)

	bad := map[string]bool{} // local import names that must go
	for _, im := range f.Imports {
		p, _ := strconv.Unquote(im.Path.Value)
		if strings.HasPrefix(p, "github.com/ipfs/kubo") {
			name := filepath.Base(p)
			if im.Name != nil {
				name = im.Name.Name
			}
			bad[name] = true
		}
	}
	// iterate: drop decls referencing bad import names or dropped top-level idents
	dropped := map[string]bool{}
	refs := func(n ast.Node) (usesBad bool) {
		ast.Inspect(n, func(x ast.Node) bool {
			switch v := x.(type) {
			case *ast.SelectorExpr:
				if id, ok := v.X.(*ast.Ident); ok && bad[id.Name] {
					usesBad = true
				}
			case *ast.Ident:
				if dropped[v.Name] {
					usesBad = true
				}
			}
			return true
		})
		return
	}
	declNames := func(d ast.Decl) []string {
		switch v := d.(type) {
		case *ast.FuncDecl:
			if v.Recv == nil {
				return []string{v.Name.Name}
			}
			return nil
		case *ast.GenDecl:
			var r []string
			for _, s := range v.Specs {
				switch sp := s.(type) {
				case *ast.TypeSpec:
					r = append(r, sp.Name.Name)
				case *ast.ValueSpec:
					for _, n := range sp.Names {
						r = append(r, n.Name)
					}
				}
			}
			return r
		}
		return nil
	}
	keep := make([]bool, len(f.Decls))
	for i := range keep {
		keep[i] = true
	}
	for changed := true; changed; {
		changed = false
		for i, d := range f.Decls {
			if !keep[i] {
				continue
			}
			if g, ok := d.(*ast.GenDecl); ok && g.Tok == token.IMPORT {
				continue
			}
			// a decl never "references" itself for the dropped check
			names := declNames(d)
			self := map[string]bool{}
			for _, n := range names {
				self[n] = dropped[n]
				delete(dropped, n)
			}
			b := refs(d)
			for n, v := range self {
				if v {
					dropped[n] = true
				}
			}
			if b {
				keep[i] = false
				changed = true
				for _, n := range names {
					dropped[n] = true
				}
			}
		}
	}
	var decls []ast.Decl
	for i, d := range f.Decls {
		if keep[i] {
			decls = append(decls, d)
		}
	}
	f.Decls = decls
	// the things the harness needs must have survived
	for _, need := range []string{"Proxy", "memoryIpfs", "NewMemoryIpfsProxy", "EmptyCid", "CidLength"} {
		found := false
		for _, d := range f.Decls {
			for _, n := range declNames(d) {
				if n == need {
					found = true
				}
			}
		}
		if !found {
			fail("ipfs-stub: declaration %s did not survive filtering", need)
		}
	}
	// drop comments attached to removed decls (printer would misplace them)
	f.Comments = nil
	pruneImports(f)
	var buf bytes.Buffer
	must(format.Node(&buf, fset, f))
	buf.WriteString("\n// added by vbuild: the kubo-backed proxy is not available in the verification build\n" +
		"func NewIpfsProxy(cfg *config.IpfsConfig, bus eventbus.Bus) (Proxy, error) {\n\treturn nil, errors.New(\"verif build: kubo proxy not available\")\n}\n")
	src := buf.Bytes()
	// make sure config/eventbus/errors imports exist
	src = ensureImports(src, map[string]string{
		"github.com/idena-network/idena-go/config":          "",
		"github.com/idena-network/idena-go/common/eventbus": "",
		"github.com/pkg/errors":                             "",
	})
	writeGen(abs, src)
}

// pruneImports removes imports whose local name is not used as a selector base.
func pruneImports(f *ast.File) {
	used := map[string]bool{}
	ast.Inspect(f, func(x ast.Node) bool {
		if s, ok := x.(*ast.SelectorExpr); ok {
			if id, ok := s.X.(*ast.Ident); ok {
				used[id.Name] = true
			}
		}
		return true
	})
	for _, d := range f.Decls {
		g, ok := d.(*ast.GenDecl)
		if !ok || g.Tok != token.IMPORT {
			continue
		}
		var specs []ast.Spec
		for _, s := range g.Specs {
			im := s.(*ast.ImportSpec)
			p, _ := strconv.Unquote(im.Path.Value)
			name := importLocalName(p)
			if im.Name != nil {
				name = im.Name.Name
			}
			if name == "_" || name == "." || used[name] {
				specs = append(specs, s)
			}
		}
		g.Specs = specs
	}
	var imps []*ast.ImportSpec
	for _, d := range f.Decls {
		if g, ok := d.(*ast.GenDecl); ok && g.Tok == token.IMPORT {
			for _, s := range g.Specs {
				imps = append(imps, s.(*ast.ImportSpec))
			}
		}
	}
	f.Imports = imps
}

var knownNames = map[string]string{
	"github.com/ipfs/go-cid":                          "cid",
	"github.com/ipfs/go-blockservice":                 "blockservice",
	"github.com/ipfs/go-ipfs-files":                   "files",
	"github.com/ipfs/go-mfs":                          "mfs",
	"github.com/multiformats/go-multihash":            "multihash",
	"github.com/patrickmn/go-cache":                   "cache",
	"github.com/whyrusleeping/go-logging":             "logging",
	"github.com/ipfs/interface-go-ipfs-core/options":  "options",
	"github.com/ipfs/interface-go-ipfs-core/path":     "path",
	"github.com/deckarep/golang-set":                  "mapset",
	"github.com/tendermint/tm-db":                     "db",
	"github.com/idena-network/idena-go/common/math":   "math",
	"github.com/idena-network/idena-go/verifhook":     "verifhook",
	"github.com/idena-network/idena-go/verifhook/vsync": "vsync",
}

func importLocalName(p string) string {
	if n, ok := knownNames[p]; ok {
		return n
	}
	b := filepath.Base(p)
	if strings.HasPrefix(b, "v") && len(b) <= 3 { // .../v3
		b = filepath.Base(filepath.Dir(p))
	}
	b = strings.TrimPrefix(b, "go-")
	return b
}

// ensureImports adds imports (path -> local name or "") to Go source if missing.
func ensureImports(src []byte, want map[string]string) []byte {
	fset := token.NewFileSet()
	f, err := parser.ParseFile(fset, "x.go", src, parser.ParseComments)
	must(err)
	have := map[string]bool{}
	for _, im := range f.Imports {
		p, _ := strconv.Unquote(im.Path.Value)
		have[p] = true
	}
	var add []string
	for p, n := range want {
		if !have[p] {
			if n != "" {
				add = append(add, n+" "+strconv.Quote(p))
			} else {
				add = append(add, strconv.Quote(p))
			}
		}
	}
	if len(add) == 0 {
		return src
	}
	sort.Strings(add)
	// insert a new import decl right after the package clause
	pkgEnd := fset.Position(f.Name.End()).Offset
	var buf bytes.Buffer
	buf.Write(src[:pkgEnd])
	buf.WriteString("\n\nimport (\n")
	for _, a := range add {
		buf.WriteString("\t" + a + "\n")
	}
	buf.WriteString(")\n")
	buf.Write(src[pkgEnd:])
	outb, err := format.Source(buf.Bytes())
	must(err)
	return outb
}

// ---------------------------------------------------------------- vclock

var clockFuncs = map[string]bool{"Now": true, "Since": true, "Sleep": true, "After": true, "NewTimer": true,
	"NewTicker": true, "AfterFunc": true, "Until": true, "Tick": true}

func timeImportName(f *ast.File) string {
	for _, im := range f.Imports {
		p, _ := strconv.Unquote(im.Path.Value)
		if p == "time" {
			if im.Name != nil {
				return im.Name.Name
			}
			return "time"
		}
	}
	return ""
}

func vclockFile(abs string) {
	fset := token.NewFileSet()
	src := readCur(abs)
	f, err := parser.ParseFile(fset, abs, src, parser.ParseComments)
	must(err)
	tn := timeImportName(f)
	if tn == "" {
		return
	}
	n := 0
	ast.Inspect(f, func(x ast.Node) bool {
		if s, ok := x.(*ast.SelectorExpr); ok {
			if id, ok := s.X.(*ast.Ident); ok && id.Name == tn && id.Obj == nil && clockFuncs[s.Sel.Name] {
				id.Name = "verifhook"
				n++
			}
		}
		return true
	})
	if n == 0 {
		return
	}
	// is "time" still used?
	stillUsed := false
	ast.Inspect(f, func(x ast.Node) bool {
		if s, ok := x.(*ast.SelectorExpr); ok {
			if id, ok := s.X.(*ast.Ident); ok && id.Name == tn && id.Obj == nil {
				stillUsed = true
			}
		}
		return true
	})
	var buf bytes.Buffer
	must(format.Node(&buf, fset, f))
	outb := buf.Bytes()
	if !stillUsed {
		outb = append(outb, []byte("\nvar _ = "+tn+".Second\n")...)
	}
	outb = ensureImports(outb, map[string]string{"github.com/idena-network/idena-go/verifhook": ""})
	writeGen(abs, outb)
}

// ---------------------------------------------------------------- go statements

var siteCounter = map[string]int{}

func gostmtFile(abs string) {
	fset := token.NewFileSet()
	src := readCur(abs)
	f, err := parser.ParseFile(fset, abs, src, parser.ParseComments)
	must(err)
	rel, _ := filepath.Rel(*repo, abs)
	n := 0
	var rewrite func(list []ast.Stmt)
	visit := func(x ast.Node) bool {
		switch b := x.(type) {
		case *ast.BlockStmt:
			rewrite(b.List)
		case *ast.CaseClause:
			rewrite(b.Body)
		case *ast.CommClause:
			rewrite(b.Body)
		}
		return true
	}
	// enclosing function name for stable site ids
	var curFunc string
	rewrite = func(list []ast.Stmt) {
		for i, st := range list {
			g, ok := st.(*ast.GoStmt)
			if !ok {
				continue
			}
			siteCounter[rel+":"+curFunc]++
			site := fmt.Sprintf("%s:%s#%d", rel, curFunc, siteCounter[rel+":"+curFunc])
			var fn ast.Expr
			if fl, ok := g.Call.Fun.(*ast.FuncLit); ok && len(g.Call.Args) == 0 {
				fn = fl
			} else {
				// go f(a, b)  ->  evaluate args now, call later (Go semantics)
				// we wrap as: func(){ f(a,b) } which evaluates args late; acceptable only
				// when args are side-effect free identifiers/selectors/literals. Check.
				for _, a := range g.Call.Args {
					if !simpleExpr(a) {
						fail("gostmt: non-simple argument in go statement at %s", fset.Position(g.Pos()))
					}
				}
				fn = &ast.FuncLit{Type: &ast.FuncType{Params: &ast.FieldList{}},
					Body: &ast.BlockStmt{List: []ast.Stmt{&ast.ExprStmt{X: g.Call}}}}
			}
			list[i] = &ast.ExprStmt{X: &ast.CallExpr{
				Fun:  &ast.SelectorExpr{X: ast.NewIdent("verifhook"), Sel: ast.NewIdent("Go")},
				Args: []ast.Expr{&ast.BasicLit{Kind: token.STRING, Value: strconv.Quote(site)}, fn},
			}}
			n++
		}
	}
	for _, d := range f.Decls {
		if fd, ok := d.(*ast.FuncDecl); ok && fd.Body != nil {
			curFunc = fd.Name.Name
			ast.Inspect(fd.Body, visit)
		}
	}
	if n == 0 {
		return
	}
	var buf bytes.Buffer
	must(format.Node(&buf, fset, f))
	outb := ensureImports(buf.Bytes(), map[string]string{"github.com/idena-network/idena-go/verifhook": ""})
	writeGen(abs, outb)
}

func simpleExpr(e ast.Expr) bool {
	switch v := e.(type) {
	case *ast.Ident, *ast.BasicLit:
		return true
	case *ast.SelectorExpr:
		return simpleExpr(v.X)
	case *ast.UnaryExpr:
		return simpleExpr(v.X)
	case *ast.StarExpr:
		return simpleExpr(v.X)
	case *ast.CallExpr:
		// method value getters like x.Height() are tolerated when args are simple
		for _, a := range v.Args {
			if !simpleExpr(a) {
				return false
			}
		}
		return simpleExpr(v.Fun)
	case *ast.IndexExpr:
		return simpleExpr(v.X) && simpleExpr(v.Index)
	}
	return false
}

// ---------------------------------------------------------------- sync shim

func syncshimFile(abs string) {
	fset := token.NewFileSet()
	src := readCur(abs)
	f, err := parser.ParseFile(fset, abs, src, parser.ParseComments)
	must(err)
	n := 0
	for _, im := range f.Imports {
		p, _ := strconv.Unquote(im.Path.Value)
		if p == "sync" {
			im.Path.Value = strconv.Quote("github.com/idena-network/idena-go/verifhook/vsync")
			if im.Name == nil {
				im.Name = ast.NewIdent("sync")
			}
			n++
		}
		if p == "sync/atomic" {
			im.Path.Value = strconv.Quote("github.com/idena-network/idena-go/verifhook/vatomic")
			if im.Name == nil {
				im.Name = ast.NewIdent("atomic")
			}
			n++
		}
	}
	if n == 0 {
		return
	}
	var buf bytes.Buffer
	must(format.Node(&buf, fset, f))
	out := buf.Bytes()
	// blocking channel receives in the instrumented loops become cooperative waits
	for _, a := range recvAnchors {
		if strings.HasSuffix(abs, a.file) {
			if bytes.Count(out, []byte(a.old)) != 1 {
				fail("syncshim: receive anchor %q not found exactly once in %s", a.old, a.file)
			}
			out = bytes.Replace(out, []byte(a.old), []byte(a.new), 1)
		}
	}
	writeGen(abs, out)
}

var recvAnchors = []struct{ file, old, new string }{
	{"protocol/pushpull.go", "req := <-holder.PushTracker().Requests()", "req := sync.Recv(holder.PushTracker().Requests()).(pushpull.PendingPulls)"},
}
