package main

// maporderFile is filled in by the type-aware pass (see maporder_types.go when present).
var maporderFile = func(abs string) { fail("maporder pass not built in") }
