package main

import (
	"fmt"
	"time"

	"github.com/idena-network/idena-go/common"
	"github.com/idena-network/idena-go/crypto"
	"github.com/idena-network/idena-go/crypto/vrf/p256"
)

func try(name string, f func()) {
	done := make(chan string, 1)
	go func() {
		defer func() {
			if r := recover(); r != nil {
				done <- fmt.Sprintf("PANIC %v", r)
			}
		}()
		f()
		done <- "ok"
	}()
	select {
	case s := <-done:
		fmt.Println(name, "->", s)
	case <-time.After(5 * time.Second):
		fmt.Println(name, "-> HANG >5s")
	}
}

func main() {
	key, _ := crypto.GenerateKey()
	signer, _ := p256.NewVRFSigner(key)
	_, proof := signer.Evaluate([]byte("m"))
	pk, _ := p256.NewVRFVerifier(&key.PublicKey)
	for _, z := range [][2]int{{0, 32}, {32, 64}, {0, 64}} {
		p := append([]byte{}, proof...)
		for i := z[0]; i < z[1]; i++ {
			p[i] = 0
		}
		try(fmt.Sprintf("ProofToHash zero[%d:%d]", z[0], z[1]), func() { _, err := pk.ProofToHash([]byte("m"), p); fmt.Println("  err:", err) })
	}
	try("HashToFloat zero hash mod 2", func() { fmt.Println("  ", common.HashToFloat(common.Hash{}, 2)) })
	try("HashToFloat zero hash mod 1", func() { fmt.Println("  ", common.HashToFloat(common.Hash{}, 1)) })
	for n := 1; n <= 8; n++ {
		n := n
		try(fmt.Sprintf("bloom %d bytes", n), func() {
			bf, err := common.NewSerializableBFFromData(make([]byte, n))
			if err != nil {
				fmt.Println("  err:", err)
				return
			}
			fmt.Println("  has:", bf.Has([]byte{1, 2, 3}))
		})
	}
}
