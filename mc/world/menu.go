package world

import (
	"fmt"
	"math/big"

	"github.com/idena-network/idena-go/blockchain/attachments"
	"github.com/idena-network/idena-go/blockchain/types"
	"github.com/idena-network/idena-go/common"
	"github.com/idena-network/idena-go/ipfs"
	"verif/mc/replica"
)

// Tmpl is a state-relative transaction template.
type Tmpl struct {
	Name  string
	Build func(b *B) *types.Transaction // nil => not applicable in this state
}

func sub(a, b *big.Int) *big.Int {
	r := new(big.Int).Sub(a, b)
	if r.Sign() < 0 {
		return big.NewInt(0)
	}
	return r
}

func cidOf(s string) []byte {
	c, _ := ipfs.NewMemoryIpfsProxy().Cid([]byte(s))
	return c.Bytes()
}

// sendAll: amount such that amount + fee (+delta) == balance.
// sendRel builds the send that sits on the admission boundary of the sender's balance: the pool and the
// block rules both require balance >= amount + maxFee (+ tips), so the amount is balance - maxFee + delta with
// the tightest admissible maxFee. delta 0 is the largest admissible amount (what is left afterwards is maxFee
// minus the fee actually charged: nothing or dust), +1 is refused by one unit, -1 is admissible with one unit
// to spare. (The template names keep their historical "bal-fee" spelling.)
func sendRel(from, to int, delta int64) func(b *B) *types.Transaction {
	return func(b *B) *types.Transaction {
		s := Spec{From: from, To: PA(to), Type: types.SendTx, Amount: big.NewInt(1)}
		mf, amt := b.TightMaxFee(s, true, delta)
		if amt.Sign() <= 0 {
			return nil
		}
		s.Amount, s.MaxFee = amt, mf
		return b.Tx(s)
	}
}

// Menu returns the transaction menu shared by the chain properties. The templates sit on
// decision boundaries of the state they are instantiated against.
func Menu() []Tmpl {
	m := []Tmpl{
		// ---- value
		{"send X1->X2 1", func(b *B) *types.Transaction {
			return b.Tx(Spec{From: X1, To: PA(X2), Type: types.SendTx, Amount: replica.Dna(1)})
		}},
		{"send X1->X2 0", func(b *B) *types.Transaction {
			return b.Tx(Spec{From: X1, To: PA(X2), Type: types.SendTx, Amount: big.NewInt(0)})
		}},
		{"send X1->Z bal-fee", sendRel(X1, Z, 0)},
		{"send X1->Z bal-fee+1", sendRel(X1, Z, 1)},
		{"send X1->X2 bal-fee-1", sendRel(X1, X2, -1)},
		{"send X2->X1 all", sendRel(X2, X1, 0)},
		{"send X1->X1 self", func(b *B) *types.Transaction {
			return b.Tx(Spec{From: X1, To: PA(X1), Type: types.SendTx, Amount: replica.Dna(3)})
		}},
		{"send Z->X1 unfunded", func(b *B) *types.Transaction {
			return b.Tx(Spec{From: Z, To: PA(X1), Type: types.SendTx, Amount: big.NewInt(1)})
		}},
		{"send X1->X2 tips=1dna", func(b *B) *types.Transaction {
			return b.Tx(Spec{From: X1, To: PA(X2), Type: types.SendTx, Amount: replica.Dna(1), Tips: replica.Dna(1)})
		}},
		{"send X1->X2 tips=bal", func(b *B) *types.Transaction {
			return b.Tx(Spec{From: X1, To: PA(X2), Type: types.SendTx, Amount: big.NewInt(0), Tips: b.Bal(X1)})
		}},
		{"send X1 maxfee=fee-1", func(b *B) *types.Transaction {
			s := Spec{From: X1, To: PA(X2), Type: types.SendTx, Amount: replica.Dna(1)}
			f := b.ExactFee(s)
			if f.Sign() == 0 {
				return nil
			}
			s.MaxFee = new(big.Int).Sub(f, big.NewInt(1))
			return b.Tx(s)
		}},
		{"send X1 maxfee=exact", func(b *B) *types.Transaction {
			s := Spec{From: X1, To: PA(X2), Type: types.SendTx, Amount: replica.Dna(1)}
			s.MaxFee = b.ExactFee(s)
			return b.Tx(s)
		}},
		{"send X1 maxfee=0", func(b *B) *types.Transaction {
			return b.Tx(Spec{From: X1, To: PA(X2), Type: types.SendTx, Amount: replica.Dna(1), MaxFee: big.NewInt(0)})
		}},
		{"send X1 maxfee huge", func(b *B) *types.Transaction {
			return b.Tx(Spec{From: X1, To: PA(X2), Type: types.SendTx, Amount: big.NewInt(1), MaxFee: replica.Dna(400)})
		}},
		{"send X1 nonce+1 (gap)", func(b *B) *types.Transaction {
			return b.Tx(Spec{From: X1, To: PA(X2), Type: types.SendTx, Amount: replica.Dna(1), NonceD: 1})
		}},
		{"send X1 epoch+1", func(b *B) *types.Transaction {
			return b.Tx(Spec{From: X1, To: PA(X2), Type: types.SendTx, Amount: replica.Dna(1), EpochD: 1, Nonce: 1})
		}},
		{"send X2 second", func(b *B) *types.Transaction {
			return b.Tx(Spec{From: X2, To: PA(X1), Type: types.SendTx, Amount: replica.Dna(2)})
		}},
		{"burn X1 5 key=k", func(b *B) *types.Transaction {
			return b.Tx(Spec{From: X1, Type: types.BurnTx, Amount: replica.Dna(5), Payload: attachments.CreateBurnAttachment("k")})
		}},
		{"burn X2 bal key=k", func(b *B) *types.Transaction {
			s := Spec{From: X2, Type: types.BurnTx, Amount: big.NewInt(1), Payload: attachments.CreateBurnAttachment("k")}
			s.MaxFee, s.Amount = b.TightMaxFee(s, true, 0) // the largest amount the balance rule (amount + maxFee) admits
			return b.Tx(s)
		}},
		{"burn X1 empty key", func(b *B) *types.Transaction {
			return b.Tx(Spec{From: X1, Type: types.BurnTx, Amount: replica.Dna(1), Payload: attachments.CreateBurnAttachment("")})
		}},
		{"replenish X1->V1 10", func(b *B) *types.Transaction {
			return b.Tx(Spec{From: X1, To: PA(V1), Type: types.ReplenishStakeTx, Amount: replica.Dna(10)})
		}},
		{"replenish X1->D2 bal", func(b *B) *types.Transaction {
			s := Spec{From: X1, To: PA(D2), Type: types.ReplenishStakeTx, Amount: big.NewInt(1)}
			s.MaxFee, s.Amount = b.TightMaxFee(s, true, 0) // the largest amount the balance rule (amount + maxFee) admits
			return b.Tx(s)
		}},
		{"replenish X1->K (killed)", func(b *B) *types.Transaction {
			return b.Tx(Spec{From: X1, To: PA(K), Type: types.ReplenishStakeTx, Amount: replica.Dna(1)})
		}},
		{"replenish X2->G", func(b *B) *types.Transaction {
			return b.Tx(Spec{From: X2, To: PA(G), Type: types.ReplenishStakeTx, Amount: replica.Dna(1)})
		}},
		{"replenish V1->self 900", func(b *B) *types.Transaction {
			return b.Tx(Spec{From: V1, To: PA(V1), Type: types.ReplenishStakeTx, Amount: replica.Dna(900)})
		}},
		{"storeToIpfs X1", func(b *B) *types.Transaction {
			return b.Tx(Spec{From: X1, Type: types.StoreToIpfsTx, Payload: attachments.CreateStoreToIpfsAttachment(cidOf("data"), 100)})
		}},
		{"storeToIpfs X1 size0", func(b *B) *types.Transaction {
			return b.Tx(Spec{From: X1, Type: types.StoreToIpfsTx, Payload: attachments.CreateStoreToIpfsAttachment(cidOf("data"), 0), MaxFee: replica.Dna(300)})
		}},
		// ---- identity
		{"invite G->NEW", func(b *B) *types.Transaction {
			return b.Tx(Spec{From: G, To: PA(NEW), Type: types.InviteTx, Amount: replica.Dna(2)})
		}},
		{"invite V2->NEW2 (no invites)", func(b *B) *types.Transaction {
			return b.Tx(Spec{From: V2, To: PA(NEW2), Type: types.InviteTx, Amount: replica.Dna(1)})
		}},
		{"invite G->V1 (existing)", func(b *B) *types.Transaction {
			return b.Tx(Spec{From: G, To: PA(V1), Type: types.InviteTx})
		}},
		{"activate I1->NEW2", func(b *B) *types.Transaction {
			return b.Tx(Spec{From: I1, To: PA(NEW2), Type: types.ActivationTx, Payload: PubKeyOf(NEW2)})
		}},
		{"activate I1->self", func(b *B) *types.Transaction {
			return b.Tx(Spec{From: I1, To: PA(I1), Type: types.ActivationTx, Payload: PubKeyOf(I1)})
		}},
		{"activate I1->V1 (validated)", func(b *B) *types.Transaction {
			return b.Tx(Spec{From: I1, To: PA(V1), Type: types.ActivationTx, Payload: PubKeyOf(V1)})
		}},
		{"activate NEW->self", func(b *B) *types.Transaction {
			return b.Tx(Spec{From: NEW, To: PA(NEW), Type: types.ActivationTx, Payload: PubKeyOf(NEW)})
		}},
		{"replenish X1->NEW 10", func(b *B) *types.Transaction {
			return b.Tx(Spec{From: X1, To: PA(NEW), Type: types.ReplenishStakeTx, Amount: replica.Dna(10)})
		}},
		{"kill V2", func(b *B) *types.Transaction { return b.Tx(Spec{From: V2, Type: types.KillTx}) }},
		{"kill D1", func(b *B) *types.Transaction { return b.Tx(Spec{From: D1, Type: types.KillTx}) }},
		{"kill N1 (newbie)", func(b *B) *types.Transaction { return b.Tx(Spec{From: N1, Type: types.KillTx}) }},
		{"kill S1 (suspended)", func(b *B) *types.Transaction { return b.Tx(Spec{From: S1, Type: types.KillTx}) }},
		{"kill X1 (undefined)", func(b *B) *types.Transaction { return b.Tx(Spec{From: X1, Type: types.KillTx}) }},
		{"killInvitee G->NEW", func(b *B) *types.Transaction {
			return b.Tx(Spec{From: G, To: PA(NEW), Type: types.KillInviteeTx})
		}},
		{"killInvitee V1->C1 (foreign)", func(b *B) *types.Transaction {
			return b.Tx(Spec{From: V1, To: PA(C1), Type: types.KillInviteeTx})
		}},
		{"changeGod G->X2", func(b *B) *types.Transaction {
			return b.Tx(Spec{From: G, To: PA(X2), Type: types.ChangeGodAddressTx})
		}},
		{"changeGod V1->V1", func(b *B) *types.Transaction {
			return b.Tx(Spec{From: V1, To: PA(V1), Type: types.ChangeGodAddressTx})
		}},
		{"changeProfile V1", func(b *B) *types.Transaction {
			return b.Tx(Spec{From: V1, Type: types.ChangeProfileTx, Payload: attachments.CreateChangeProfileAttachment([]byte{1, 2, 3})})
		}},
		{"submitFlip V1 pair0", func(b *B) *types.Transaction {
			return b.Tx(Spec{From: V1, Type: types.SubmitFlipTx, Payload: attachments.CreateFlipSubmitAttachment(cidOf("flipA"), 0)})
		}},
		{"submitFlip V1 pair1", func(b *B) *types.Transaction {
			return b.Tx(Spec{From: V1, Type: types.SubmitFlipTx, Payload: attachments.CreateFlipSubmitAttachment(cidOf("flipB"), 1)})
		}},
		{"submitFlip X1 (not candidate)", func(b *B) *types.Transaction {
			return b.Tx(Spec{From: X1, Type: types.SubmitFlipTx, Payload: attachments.CreateFlipSubmitAttachment(cidOf("flipC"), 0)})
		}},
		{"deleteFlip V1 flipA", func(b *B) *types.Transaction {
			return b.Tx(Spec{From: V1, Type: types.DeleteFlipTx, Payload: attachments.CreateDeleteFlipAttachment(cidOf("flipA")), MaxFee: replica.Dna(300)})
		}},
		// ---- online / pools
		{"online V1", func(b *B) *types.Transaction {
			return b.Tx(Spec{From: V1, Type: types.OnlineStatusTx, Payload: Online(true)})
		}},
		{"offline V1", func(b *B) *types.Transaction {
			return b.Tx(Spec{From: V1, Type: types.OnlineStatusTx, Payload: Online(false)})
		}},
		{"online V2", func(b *B) *types.Transaction {
			return b.Tx(Spec{From: V2, Type: types.OnlineStatusTx, Payload: Online(true)})
		}},
		{"online P", func(b *B) *types.Transaction {
			return b.Tx(Spec{From: P, Type: types.OnlineStatusTx, Payload: Online(true)})
		}},
		{"online C1 (candidate)", func(b *B) *types.Transaction {
			return b.Tx(Spec{From: C1, Type: types.OnlineStatusTx, Payload: Online(true)})
		}},
		{"delegate D1->P", func(b *B) *types.Transaction {
			return b.Tx(Spec{From: D1, To: PA(P), Type: types.DelegateTx})
		}},
		{"delegate D2->P", func(b *B) *types.Transaction {
			return b.Tx(Spec{From: D2, To: PA(P), Type: types.DelegateTx})
		}},
		{"delegate C1->V1", func(b *B) *types.Transaction {
			return b.Tx(Spec{From: C1, To: PA(V1), Type: types.DelegateTx})
		}},
		{"delegate V1->V2", func(b *B) *types.Transaction {
			return b.Tx(Spec{From: V1, To: PA(V2), Type: types.DelegateTx})
		}},
		{"delegate P->X1 (pool delegating)", func(b *B) *types.Transaction {
			return b.Tx(Spec{From: P, To: PA(X1), Type: types.DelegateTx})
		}},
		{"delegate V2->self", func(b *B) *types.Transaction {
			return b.Tx(Spec{From: V2, To: PA(V2), Type: types.DelegateTx})
		}},
		{"undelegate D1", func(b *B) *types.Transaction { return b.Tx(Spec{From: D1, Type: types.UndelegateTx}) }},
		{"killDelegator P->D1", func(b *B) *types.Transaction {
			return b.Tx(Spec{From: P, To: PA(D1), Type: types.KillDelegatorTx})
		}},
		{"killDelegator P->D2", func(b *B) *types.Transaction {
			return b.Tx(Spec{From: P, To: PA(D2), Type: types.KillDelegatorTx})
		}},
		{"killDelegator V1->D1 (foreign)", func(b *B) *types.Transaction {
			return b.Tx(Spec{From: V1, To: PA(D1), Type: types.KillDelegatorTx})
		}},
		// ---- ceremony (wrong period outside sessions)
		{"answersHash V1", func(b *B) *types.Transaction {
			return b.Tx(Spec{From: V1, Type: types.SubmitAnswersHashTx, Payload: common.Hash{1}.Bytes()})
		}},
		{"shortAnswers V1", func(b *B) *types.Transaction {
			return b.Tx(Spec{From: V1, Type: types.SubmitShortAnswersTx, Payload: attachments.CreateShortAnswerAttachment([]byte{1}, 7, 0)})
		}},
		{"evidence V1", func(b *B) *types.Transaction {
			return b.Tx(Spec{From: V1, Type: types.EvidenceTx, Payload: []byte{1}})
		}},
		// ---- contracts (embedded time lock)
		{"deploy timelock X1 stake ok", func(b *B) *types.Transaction {
			min := new(big.Int).Mul(b.R.App.State.FeePerGas(), big.NewInt(3000000))
			return b.Tx(Spec{From: X1, Type: types.DeployContractTx, Amount: min, Payload: TimeLockDeploy(0), MaxFee: replica.Dna(20)})
		}},
		{"deploy timelock X1 stake-1", func(b *B) *types.Transaction {
			min := new(big.Int).Mul(b.R.App.State.FeePerGas(), big.NewInt(3000000))
			if min.Sign() == 0 {
				return nil
			}
			return b.Tx(Spec{From: X1, Type: types.DeployContractTx, Amount: sub(min, big.NewInt(1)), Payload: TimeLockDeploy(0), MaxFee: replica.Dna(20)})
		}},
		{"deploy timelock X2 no args", func(b *B) *types.Transaction {
			min := new(big.Int).Mul(b.R.App.State.FeePerGas(), big.NewInt(3000000))
			p, _ := attachments.CreateDeployContractAttachment(embeddedTimeLock(), nil, nil).ToBytes()
			return b.Tx(Spec{From: X2, Type: types.DeployContractTx, Amount: min, Payload: p, MaxFee: replica.Dna(20)})
		}},
		{"deploy timelock X2 tiny maxfee", func(b *B) *types.Transaction {
			min := new(big.Int).Mul(b.R.App.State.FeePerGas(), big.NewInt(3000000))
			s := Spec{From: X2, Type: types.DeployContractTx, Amount: min, Payload: TimeLockDeploy(0)}
			f := b.ExactFee(s)
			s.MaxFee = new(big.Int).Add(f, big.NewInt(1))
			return b.Tx(s)
		}},
		{"fund contract0 X2 5", func(b *B) *types.Transaction {
			c := b.Contract(0)
			if c == nil {
				return nil
			}
			return b.Tx(Spec{From: X2, To: c, Type: types.SendTx, Amount: replica.Dna(5)})
		}},
		{"call contract0 transfer->X2 1 by owner X1", func(b *B) *types.Transaction {
			c := b.Contract(0)
			if c == nil {
				return nil
			}
			return b.Tx(Spec{From: X1, To: c, Type: types.CallContractTx, Payload: CallPayload("transfer", A(X2).Bytes(), replica.Dna(1).Bytes()), MaxFee: replica.Dna(20)})
		}},
		{"call contract0 transfer->Z balance+1 by owner X1", func(b *B) *types.Transaction {
			c := b.Contract(0)
			if c == nil {
				return nil
			}
			amt := new(big.Int).Add(b.R.App.State.GetBalance(*c), big.NewInt(1))
			return b.Tx(Spec{From: X1, To: c, Type: types.CallContractTx, Payload: CallPayload("transfer", A(Z).Bytes(), amt.Bytes()), MaxFee: replica.Dna(20)})
		}},
		{"call contract0 transfer->Z all, pay 2, by owner X1", func(b *B) *types.Transaction {
			c := b.Contract(0)
			if c == nil {
				return nil
			}
			amt := new(big.Int).Add(b.R.App.State.GetBalance(*c), replica.Dna(2))
			return b.Tx(Spec{From: X1, To: c, Type: types.CallContractTx, Amount: replica.Dna(2), Payload: CallPayload("transfer", A(Z).Bytes(), amt.Bytes()), MaxFee: replica.Dna(20)})
		}},
		{"call contract0 transfer->itself 1 by owner X1", func(b *B) *types.Transaction {
			c := b.Contract(0)
			if c == nil {
				return nil
			}
			return b.Tx(Spec{From: X1, To: c, Type: types.CallContractTx, Payload: CallPayload("transfer", c.Bytes(), replica.Dna(1).Bytes()), MaxFee: replica.Dna(20)})
		}},
		{"call contract0 transfer->itself balance by owner X1", func(b *B) *types.Transaction {
			c := b.Contract(0)
			if c == nil {
				return nil
			}
			return b.Tx(Spec{From: X1, To: c, Type: types.CallContractTx, Payload: CallPayload("transfer", c.Bytes(), b.R.App.State.GetBalance(*c).Bytes()), MaxFee: replica.Dna(20)})
		}},
		{"call contract0 transfer->owner X1 balance by owner X1", func(b *B) *types.Transaction {
			c := b.Contract(0)
			if c == nil {
				return nil
			}
			return b.Tx(Spec{From: X1, To: c, Type: types.CallContractTx, Payload: CallPayload("transfer", A(X1).Bytes(), b.R.App.State.GetBalance(*c).Bytes()), MaxFee: replica.Dna(20)})
		}},
		{"call contract0 transfer by X2 (not owner)", func(b *B) *types.Transaction {
			c := b.Contract(0)
			if c == nil {
				return nil
			}
			return b.Tx(Spec{From: X2, To: c, Type: types.CallContractTx, Amount: replica.Dna(1), Payload: CallPayload("transfer", A(X2).Bytes(), replica.Dna(1).Bytes()), MaxFee: replica.Dna(20)})
		}},
		{"call contract0 unknown method by X1", func(b *B) *types.Transaction {
			c := b.Contract(0)
			if c == nil {
				return nil
			}
			return b.Tx(Spec{From: X1, To: c, Type: types.CallContractTx, Payload: CallPayload("nope"), MaxFee: replica.Dna(20)})
		}},
		{"terminate contract0 by X1", func(b *B) *types.Transaction {
			c := b.Contract(0)
			if c == nil {
				return nil
			}
			return b.Tx(Spec{From: X1, To: c, Type: types.TerminateContractTx, Payload: TerminatePayload(A(X1).Bytes()), MaxFee: replica.Dna(20)})
		}},
		{"terminate contract0 by X2 (not owner)", func(b *B) *types.Transaction {
			c := b.Contract(0)
			if c == nil {
				return nil
			}
			return b.Tx(Spec{From: X2, To: c, Type: types.TerminateContractTx, Payload: TerminatePayload(A(X2).Bytes()), MaxFee: replica.Dna(20)})
		}},
		{"call X1->X2 (no contract)", func(b *B) *types.Transaction {
			return b.Tx(Spec{From: X1, To: PA(X2), Type: types.CallContractTx, Payload: CallPayload("transfer"), MaxFee: replica.Dna(20)})
		}},
	}
	return m
}

// Dyn builds a template from a name of the form
//   online A | offline A | kill A | undelegate A | delegate A->B | killDelegator A->B |
//   killInvitee A->B | invite A->B | send A->B N | replenish A->B N
// (actor names as in ActorNames); nil if the name has no such form.
func Dyn(name string) *Tmpl {
	if len(name) > 4 && name[:4] == "cer:" {
		var parts []string
		cur := ""
		for _, ch := range name[4:] {
			if ch == ':' {
				parts = append(parts, cur)
				cur = ""
			} else {
				cur += string(ch)
			}
		}
		parts = append(parts, cur)
		if len(parts) == 3 {
			for i, n := range ActorNames {
				if n == parts[1] {
					t := CerTmpl(parts[0], i, parts[2])
					return &t
				}
			}
		}
		return nil
	}
	actor := func(s string) (int, bool) {
		for i, n := range ActorNames {
			if n == s {
				return i, true
			}
		}
		return 0, false
	}
	var verb, rest string
	if i := indexByte(name, ' '); i > 0 {
		verb, rest = name[:i], name[i+1:]
	} else {
		return nil
	}
	var amount int64
	if j := indexByte(rest, ' '); j > 0 {
		var n int64
		if _, err := fmt.Sscan(rest[j+1:], &n); err != nil {
			return nil
		}
		amount, rest = n, rest[:j]
	}
	from, to := rest, ""
	if k := indexStr(rest, "->"); k > 0 {
		from, to = rest[:k], rest[k+2:]
	}
	f, ok := actor(from)
	if !ok {
		return nil
	}
	var tp *common.Address
	if to != "" {
		ti, ok := actor(to)
		if !ok {
			return nil
		}
		tp = PA(ti)
	}
	mk := func(sp Spec) *Tmpl {
		return &Tmpl{Name: name, Build: func(b *B) *types.Transaction { return b.Tx(sp) }}
	}
	switch verb {
	case "submitFlip":
		// "submitFlip <A> <pair>" (amount slot carries the pair index)
		pair := uint8(amount)
		return &Tmpl{Name: name, Build: func(b *B) *types.Transaction {
			return b.Tx(Spec{From: f, Type: types.SubmitFlipTx, Payload: attachments.CreateFlipSubmitAttachment(cidOf(fmt.Sprintf("flip-%d-%d", f, pair)), pair)})
		}}
	case "online":
		return mk(Spec{From: f, Type: types.OnlineStatusTx, Payload: Online(true)})
	case "offline":
		return mk(Spec{From: f, Type: types.OnlineStatusTx, Payload: Online(false)})
	case "kill":
		return mk(Spec{From: f, Type: types.KillTx})
	case "undelegate":
		return mk(Spec{From: f, Type: types.UndelegateTx})
	case "delegate":
		return mk(Spec{From: f, To: tp, Type: types.DelegateTx})
	case "killDelegator":
		return mk(Spec{From: f, To: tp, Type: types.KillDelegatorTx})
	case "killInvitee":
		return mk(Spec{From: f, To: tp, Type: types.KillInviteeTx})
	case "invite":
		return mk(Spec{From: f, To: tp, Type: types.InviteTx, Amount: replica.Dna(amount)})
	case "send":
		return mk(Spec{From: f, To: tp, Type: types.SendTx, Amount: replica.Dna(amount)})
	case "replenish":
		return mk(Spec{From: f, To: tp, Type: types.ReplenishStakeTx, Amount: replica.Dna(amount)})
	}
	return nil
}

func indexByte(s string, c byte) int {
	for i := 0; i < len(s); i++ {
		if s[i] == c {
			return i
		}
	}
	return -1
}

func indexStr(s, sub string) int {
	for i := 0; i+len(sub) <= len(s); i++ {
		if s[i:i+len(sub)] == sub {
			return i
		}
	}
	return -1
}
