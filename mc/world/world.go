// Package world holds the shared alphabet of the chain explorers: actors with fixed keys,
// genesis families, state-relative transaction templates.
package world

import (
	"github.com/idena-network/idena-go/core/appstate"
	"math/big"
	"sort"

	"github.com/idena-network/idena-go/blockchain/attachments"
	"github.com/idena-network/idena-go/blockchain/fee"
	"github.com/idena-network/idena-go/blockchain/types"
	"github.com/idena-network/idena-go/common"
	"github.com/idena-network/idena-go/config"
	"github.com/idena-network/idena-go/core/state"
	"github.com/idena-network/idena-go/crypto"
	"github.com/idena-network/idena-go/vm/embedded"
	"verif/mc/replica"
)

// actors (key indices)
const (
	G    = 0  // god
	V1   = 1  // Verified
	V2   = 2  // Human
	N1   = 3  // Newbie
	C1   = 4  // Candidate
	I1   = 5  // Invite
	P    = 6  // Verified, pool owner to be
	D1   = 7  // Verified, delegator to be
	D2   = 8  // Newbie, delegator to be
	X1   = 9  // plain funded
	X2   = 10 // plain funded
	Z    = 11 // unfunded, unknown
	S1   = 12 // Suspended
	ZM   = 13 // Zombie
	K    = 14 // Killed
	NEW  = 15 // fresh key used as invite/activation target
	NEW2 = 16
)

var ActorNames = map[int]string{G: "G", V1: "V1", V2: "V2", N1: "N1", C1: "C1", I1: "I1", P: "P", D1: "D1", D2: "D2", X1: "X1", X2: "X2", Z: "Z", S1: "S1", ZM: "ZM", K: "K", NEW: "NEW", NEW2: "NEW2"}

func A(i int) common.Address   { return replica.Addr(i) }
func PA(i int) *common.Address { a := replica.Addr(i); return &a }

// Consensus returns the test consensus config with the switch ranges lowered so that
// small depths reach identity-update / snapshot blocks.
func Consensus() *config.ConsensusConf {
	c := replica.DefaultConsensus()
	c.StatusSwitchRange = 2
	c.DelegationSwitchRange = 2
	c.DiscriminationSwitchRange = 2
	c.SnapshotRange = 3
	c.BurnTxRange = 3
	return c
}

func alloc(st state.IdentityState, bal, stake int64) config.GenesisAllocation {
	a := config.GenesisAllocation{State: uint8(st)}
	if bal > 0 {
		a.Balance = replica.Dna(bal)
	}
	if stake > 0 {
		a.Stake = replica.Dna(stake)
	}
	return a
}

// GenesisG1: god only.
func GenesisG1() replica.Opts {
	return replica.Opts{KeyIdx: G, God: G, Consensus: Consensus(), GodInvites: 5,
		Alloc: map[common.Address]config.GenesisAllocation{A(G): alloc(state.Undefined, 1000, 0), A(X1): alloc(state.Undefined, 100, 0)}}
}

// GenesisG2: god + identities of every status + funded plain accounts.
func GenesisG2() replica.Opts {
	return replica.Opts{KeyIdx: G, God: G, Consensus: Consensus(), GodInvites: 5,
		Alloc: map[common.Address]config.GenesisAllocation{
			A(G):  alloc(state.Undefined, 1000, 0),
			A(V1): alloc(state.Verified, 1000, 100),
			A(V2): alloc(state.Human, 1000, 200),
			A(N1): alloc(state.Newbie, 1000, 10),
			A(C1): alloc(state.Candidate, 1000, 0),
			A(I1): alloc(state.Invite, 10, 0),
			A(P):  alloc(state.Verified, 1000, 50),
			A(D1): alloc(state.Verified, 1000, 30),
			A(D2): alloc(state.Newbie, 1000, 1),
			A(X1): alloc(state.Undefined, 20000, 0),
			A(X2): alloc(state.Undefined, 20000, 0),
			A(S1): alloc(state.Suspended, 100, 20),
			A(ZM): alloc(state.Zombie, 100, 20),
			A(K):  alloc(state.Killed, 100, 0),
		}}
}

// Candidates for proposing, in preference order.
var ProposerOrder = []int{V1, V2, P, N1, D1, D2, G}

// PickProposer returns the key index of an address allowed to propose on r's head.
func PickProposer(r *replica.Replica) int {
	vc := r.App.ValidatorsCache
	for _, k := range ProposerOrder {
		if k == G {
			continue
		}
		if vc.IsOnlineIdentity(A(k)) {
			return k
		}
	}
	for k := 0; k <= NEW2; k++ { // any other actor that is online (e.g. a pool whose owner is a plain account)
		if vc.IsOnlineIdentity(A(k)) {
			return k
		}
	}
	// god-only mode: the god address of the *state* proposes (it may have been handed over)
	god := r.App.State.GodAddress()
	for k := 0; k <= NEW2; k++ {
		if A(k) == god {
			return k
		}
	}
	return r.Opts.God
}

// ---------------------------------------------------------------- templates

// B builds transactions against a replica's committed state, keeping per-sender nonce
// offsets so that several templates of one sender form a consecutive run.
type B struct {
	R    *replica.Replica
	next map[int]uint32
}

func NewB(r *replica.Replica) *B { return &B{R: r, next: map[int]uint32{}} }

func (b *B) nonce(from int) uint32 {
	if n, ok := b.next[from]; ok {
		b.next[from] = n + 1
		return n
	}
	st := b.R.App.State
	n := st.GetNonce(A(from))
	if st.GetEpoch(A(from)) < st.Epoch() {
		n = 0
	}
	b.next[from] = n + 2
	return n + 1
}

// FeeOf returns the exact in-block fee of a (signed or unsigned) tx on the current state.
func (b *B) FeeOf(tx *types.Transaction) *big.Int {
	return fee.CalculateFee(b.R.App.ValidatorsCache.NetworkSize(), b.R.App.State.FeePerGas(), tx)
}

func (b *B) Bal(i int) *big.Int { return b.R.App.State.GetBalance(A(i)) }

type Spec struct {
	From    int
	To      *common.Address
	Type    types.TxType
	Amount  *big.Int
	MaxFee  *big.Int // nil => 2x exact fee (at least 1 DNA)
	Tips    *big.Int
	Nonce   uint32 // 0 => next in run
	NonceD  int    // added to the chosen nonce (gap / reuse)
	EpochD  int    // added to the state epoch
	Payload []byte
}

func (b *B) Tx(s Spec) *types.Transaction {
	st := b.R.App.State
	tx := &types.Transaction{Type: s.Type, To: s.To, Amount: s.Amount, Tips: s.Tips, Payload: s.Payload}
	tx.Epoch = uint16(int(st.Epoch()) + s.EpochD)
	if s.Nonce != 0 {
		tx.AccountNonce = s.Nonce
	} else {
		tx.AccountNonce = uint32(int(b.nonce(s.From)) + s.NonceD)
	}
	if s.MaxFee != nil {
		tx.MaxFee = s.MaxFee
	} else {
		tx.MaxFee = big.NewInt(0)
		signed0, _ := types.SignTx(tx, replica.Key(s.From))
		f := b.FeeOf(signed0)
		// the pool prices admission with the network's minimal rate, block processing with the state's rate
		if mf := fee.CalculateFee(b.R.App.ValidatorsCache.NetworkSize(), fee.GetFeePerGasForNetwork(b.R.App.ValidatorsCache.NetworkSize()), signed0); mf.Cmp(f) > 0 {
			f = mf
		}
		tx.MaxFee = new(big.Int).Mul(f, big.NewInt(3))
		if tx.MaxFee.Cmp(replica.Dna(1)) < 0 {
			tx.MaxFee = replica.Dna(1)
		}
	}
	signed, err := types.SignTx(tx, replica.Key(s.From))
	if err != nil {
		panic(err)
	}
	return signed
}

// ExactFee returns the fee the tx described by s would pay (MaxFee does not influence size
// classes materially but is part of the size; iterate once to a fixed point).
func (b *B) ExactFee(s Spec) *big.Int {
	save := map[int]uint32{}
	for k, v := range b.next {
		save[k] = v
	}
	s.MaxFee = replica.Dna(1)
	tx := b.Tx(s)
	b.next = save
	return b.FeeOf(tx)
}

// TightMaxFee returns the smallest fee ceiling with which the tx described by s (amount = balance - ceiling
// + delta when wholeBalance is set) passes both the pool's pricing (minimal network rate) and the block's
// (state rate); nonce bookkeeping untouched. The fee depends on the encoded size, hence the fixed point.
func (b *B) TightMaxFee(s Spec, wholeBalance bool, delta int64) (*big.Int, *big.Int) {
	save := map[int]uint32{}
	for k, v := range b.next {
		save[k] = v
	}
	defer func() { b.next = save }()
	ns := b.R.App.ValidatorsCache.NetworkSize()
	m := replica.Dna(1)
	amt := s.Amount
	for i := 0; i < 4; i++ {
		if wholeBalance {
			amt = new(big.Int).Add(sub(b.Bal(s.From), m), big.NewInt(delta))
			if amt.Sign() < 0 {
				amt = big.NewInt(0)
			}
		}
		s.Amount, s.MaxFee = amt, m
		tx := b.Tx(s)
		f := b.FeeOf(tx)
		if mf := fee.CalculateFee(ns, fee.GetFeePerGasForNetwork(ns), tx); mf.Cmp(f) > 0 {
			f = mf
		}
		if f.Cmp(m) == 0 {
			break
		}
		m = f
	}
	return m, amt
}

func Online(on bool) []byte { return attachments.CreateOnlineStatusAttachment(on) }

func PubKeyOf(i int) []byte { return crypto.FromECDSAPub(&replica.Key(i).PublicKey) }

func TimeLockDeploy(ts uint64) []byte {
	a := attachments.CreateDeployContractAttachment(embedded.TimeLockContract, nil, nil, common.ToBytes(ts))
	b, _ := a.ToBytes()
	return b
}

func CallPayload(method string, args ...[]byte) []byte {
	a := attachments.CreateCallContractAttachment(method, args...)
	b, _ := a.ToBytes()
	return b
}

func TerminatePayload(args ...[]byte) []byte {
	a := attachments.CreateTerminateContractAttachment(args...)
	b, _ := a.ToBytes()
	return b
}

func Big(n int64) *big.Int { return big.NewInt(n) }

func embeddedTimeLock() common.Hash { return embedded.TimeLockContract }

// Contract returns the i-th contract address of the committed state (sorted), or nil.
func (b *B) Contract(i int) *common.Address {
	var cs []common.Address
	b.R.App.State.IterateOverAccounts(func(addr common.Address, acc state.Account) {
		if acc.Contract != nil {
			cs = append(cs, addr)
		}
	})
	sort.Slice(cs, func(x, y int) bool { return string(cs[x][:]) < string(cs[y][:]) })
	if i >= len(cs) {
		return nil
	}
	return &cs[i]
}

// SetNext makes the next transaction built for `from` use nonce n (and count up from there).
func (b *B) SetNext(from int, n uint32) { b.next[from] = n }

// WithNonce returns tx re-signed by its sender (one of the fixed actor keys) with the account
// nonce shifted by d; nil if the sender is not an actor.
func WithNonce(tx *types.Transaction, d int) *types.Transaction {
	if tx == nil {
		return nil
	}
	sender, _ := types.Sender(tx)
	for k := 0; k <= NEW2; k++ {
		if A(k) == sender {
			cp := &types.Transaction{AccountNonce: uint32(int(tx.AccountNonce) + d), Epoch: tx.Epoch, Type: tx.Type, To: tx.To, Amount: tx.Amount, MaxFee: tx.MaxFee, Tips: tx.Tips, Payload: tx.Payload}
			signed, err := types.SignTx(cp, replica.Key(k))
			if err != nil {
				panic(err)
			}
			return signed
		}
	}
	return nil
}

// WithTips returns tx re-signed by its sender (one of the fixed actor keys) carrying the given tips.
func WithTips(tx *types.Transaction, tips *big.Int) *types.Transaction {
	if tx == nil {
		return nil
	}
	sender, _ := types.Sender(tx)
	for k := 0; k <= NEW2; k++ {
		if A(k) == sender {
			cp := &types.Transaction{AccountNonce: tx.AccountNonce, Epoch: tx.Epoch, Type: tx.Type, To: tx.To, Amount: tx.Amount, MaxFee: tx.MaxFee, Tips: tips, Payload: tx.Payload}
			signed, err := types.SignTx(cp, replica.Key(k))
			if err != nil {
				panic(err)
			}
			return signed
		}
	}
	return nil
}

func init() {
	// two shards of equal size, the in-shard identities of the genesis spread over both: the states in which
	// the smallest shard is not unique (a new candidate goes to the smallest shard)
	replica.GenesisEdits["two-equal-shards"] = func(a *appstate.AppState) {
		a.State.SetShardsNum(2)
		n := [3]uint32{}
		for i := 0; i <= NEW2; i++ {
			if a.State.GetIdentityState(A(i)).IsInShard() {
				sh := common.ShardId(1 + i%2)
				a.State.SetShardId(A(i), sh)
				n[sh]++
			}
		}
		if n[1] < n[2] {
			n[1] = n[2]
		}
		a.State.SetShardSize(1, n[1]+10)
		a.State.SetShardSize(2, n[1]+10)
	}
}
