package world

import (
	"bytes"
	"fmt"

	"github.com/idena-network/idena-go/blockchain/attachments"
	"github.com/idena-network/idena-go/blockchain/types"
	"github.com/idena-network/idena-go/common"
	"github.com/idena-network/idena-go/core/ceremony"
	"github.com/idena-network/idena-go/crypto"
	"github.com/idena-network/idena-go/crypto/ecies"
	"verif/mc/replica"
)

// Ceremony transaction builders. All answers are derived from (participant, pattern):
// the "truth" of every flip is Left; pattern good = all Left, bad = all Right,
// mixed = alternating starting with Left, none = no answer given.
func answersFor(n int, pattern string, long bool) *types.Answers {
	a := types.NewAnswers(uint(n))
	for i := 0; i < n; i++ {
		switch pattern {
		case "good":
			a.Left(uint(i))
		case "bad":
			a.Right(uint(i))
		case "mixed":
			if i%2 == 0 {
				a.Left(uint(i))
			} else {
				a.Right(uint(i))
			}
		case "mostly": // one wrong answer
			if i == n-1 && n > 1 {
				a.Right(uint(i))
			} else {
				a.Left(uint(i))
			}
		}
		if long {
			a.Grade(uint(i), types.GradeA)
		}
	}
	return a
}

type cerInfo struct {
	short, long int
	cands       []common.Address
	shard       common.ShardId
}

func cerOf(b *B, p int) *cerInfo {
	vc := b.R.Ceremony
	if vc == nil || !vc.VerifLotteryFinished() {
		return nil
	}
	id := b.R.App.State.GetIdentity(A(p))
	sh := id.ShiftedShardId()
	return &cerInfo{
		short: len(vc.GetShortFlipsToSolve(A(p), sh)),
		long:  len(vc.GetLongFlipsToSolve(A(p), sh)),
		cands: vc.VerifCandidates(sh),
		shard: sh,
	}
}

func shortBytes(ci *cerInfo, pattern string) []byte { return answersFor(ci.short, pattern, false).Bytes() }

// CerTx builds the ceremony tx `kind` (hash|short|long|evidence) of participant p.
// For evidence, pattern lists who is approved: "all", "none" or "self".
func CerTx(kind string, p int, pattern string) func(b *B) *types.Transaction {
	return func(b *B) *types.Transaction {
		ci := cerOf(b, p)
		if ci == nil {
			return nil
		}
		epoch := b.R.App.State.Epoch()
		salt := ceremony.VerifSalt(epoch, replica.Sec(p))
		seed := b.R.App.State.FlipWordsSeed()
		vhash, proof := replica.Sec(p).VrfEvaluate(seed[:])
		switch kind {
		case "hash":
			h := crypto.Hash(append(shortBytes(ci, pattern), salt...))
			return b.Tx(Spec{From: p, Type: types.SubmitAnswersHashTx, Payload: h[:]})
		case "short":
			return b.Tx(Spec{From: p, Type: types.SubmitShortAnswersTx, Payload: attachments.CreateShortAnswerAttachment(shortBytes(ci, pattern), ceremony.VerifWordsRnd(vhash), 0)})
		case "long":
			key := ecies.ImportECDSA(replica.Key(p))
			return b.Tx(Spec{From: p, Type: types.SubmitLongAnswersTx, Payload: attachments.CreateLongAnswerAttachment(answersFor(ci.long, pattern, true).Bytes(), proof, salt, key)})
		case "evidence":
			bm := common.NewBitmap(uint32(len(ci.cands)))
			for i, c := range ci.cands {
				if pattern == "all" || pattern == "self" && c == A(p) {
					bm.Add(uint32(i))
				}
			}
			var buf bytes.Buffer
			bm.WriteTo(&buf)
			return b.Tx(Spec{From: p, Type: types.EvidenceTx, Payload: buf.Bytes()})
		}
		panic("bad ceremony tx kind " + kind)
	}
}

// CerTmpl returns the template named "cer:<kind>:<actor>:<pattern>".
func CerTmpl(kind string, p int, pattern string) Tmpl {
	return Tmpl{Name: fmt.Sprintf("cer:%s:%s:%s", kind, ActorNames[p], pattern), Build: CerTx(kind, p, pattern)}
}
