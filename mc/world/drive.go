package world

import (
	"bytes"
	"fmt"
	"strings"
	"time"

	"github.com/idena-network/idena-go/blockchain/types"
	"github.com/idena-network/idena-go/blockchain/validation"
	"github.com/idena-network/idena-go/common"
	"github.com/idena-network/idena-go/config"
	"github.com/idena-network/idena-go/core/state"
	"github.com/idena-network/idena-go/ipfs"
	"github.com/idena-network/idena-go/verifhook"
	"verif/mc/replica"
)

// T0 is the virtual wall-clock origin of every scenario (2023-11-14 22:13:20 UTC, a Tuesday).
const T0 = int64(1700000000)

// Net is the process-wide content store shared by all replicas ("the network has it").
var Net = ipfs.NewMemoryIpfsProxy()

func init() {
	verifhook.GoPolicy = PolicyOf
}

// PolicyOf is the go-statement policy of the sequential explorers: the two ceremony
// computations run inline, service loops never run.
func PolicyOf(site string) verifhook.GoMode {
	switch {
	case strings.Contains(site, "ceremony.go:handleFlipLotteryPeriod"),
		strings.Contains(site, "ceremony.go:completeEpoch"):
		return verifhook.GoInline
	}
	return verifhook.GoDrop
}

// Open starts a replica on a copy of img whose node key is eligible to propose.
func Open(o replica.Opts, img replica.Image, now int64) (*replica.Replica, error) {
	o.Ipfs = Net
	replica.SetTime(now)
	r, err := replica.New(o, img.NewDB())
	if err != nil {
		return nil, err
	}
	if k := PickProposer(r); k != o.KeyIdx {
		o.KeyIdx = k
		return replica.New(o, img.NewDB())
	}
	return r, nil
}

// OpenAs starts a replica with a given node key.
func OpenAs(o replica.Opts, img replica.Image, now int64, key int) (*replica.Replica, error) {
	o.Ipfs = Net
	o.KeyIdx = key
	replica.SetTime(now)
	return replica.New(o, img.NewDB())
}

// OtherKey returns a node key different from k (for the validating replica).
func OtherKey(k int) int {
	if k == X2 {
		return X1
	}
	return X2
}

// Submit offers txs to the pool like gossip does; returns per-tx admission errors.
func Submit(r *replica.Replica, txs []*types.Transaction) []error {
	r.Activate()
	var errs []error
	for _, tx := range txs {
		if tx == nil {
			errs = append(errs, fmt.Errorf("n/a"))
			continue
		}
		errs = append(errs, r.Pool.AddExternalTxs(validation.InboundTx, tx))
	}
	return errs
}

// Boundaries returns the ceremony phase boundaries (unix) derived from the state.
func Boundaries(r *replica.Replica) []int64 {
	st := r.App.State
	v := r.Cfg.Validation
	nvt := st.NextValidationTime().Unix()
	fl := nvt - int64(v.GetFlipLotteryDuration()/time.Second)
	short := nvt
	long := nvt + int64(v.GetShortSessionDuration()/time.Second)
	after := long + int64(v.GetLongSessionDuration(r.App.ValidatorsCache.NetworkSize())/time.Second)
	return []int64{fl, short, long, after}
}

// NextBoundary returns the first phase boundary strictly after t (0 if none).
func NextBoundary(r *replica.Replica, t int64) int64 {
	for _, b := range Boundaries(r) {
		if b > t {
			return b
		}
	}
	return 0
}

// node-local key prefixes excluded when comparing two replicas' images
var localPrefixes = [][]byte{[]byte("activity"), []byte("applytxlog"), []byte("blacktx"), []byte("oti")}

func SharedImage(img replica.Image) replica.Image {
	var out replica.Image
outer:
	for _, kv := range img {
		for _, p := range localPrefixes {
			if bytes.HasPrefix(kv.K, p) {
				continue outer
			}
		}
		out = append(out, kv)
	}
	return out
}

// StateKey is the canonical key of a chain state (see DESIGN 2.4).
func StateKey(r *replica.Replica, now int64) string {
	h := r.Chain.Head
	g := r.App.State.GetOrNewGlobalObject()
	return fmt.Sprintf("h=%d root=%x idroot=%x seed=%x t=%d ep=%d per=%d flags=%d", h.Height(), h.Root().Bytes()[:8], h.IdentityRoot().Bytes()[:8],
		h.Seed().Bytes()[:6], h.Time(), g.Epoch(), r.App.State.ValidationPeriod(), h.Flags())
}

var _ = common.Hash{}
var _ = config.Config{}
var _ = state.Verified

// ConsensusImage additionally drops the per-epoch ceremony database (prefix "epoch"): it is
// node-local bookkeeping (receipt timestamps, lists serialised in map order) whose content is
// read back as sets; what it feeds into consensus is covered by the epoch result and the roots.
func ConsensusImage(img replica.Image) replica.Image {
	var out replica.Image
	for _, kv := range SharedImage(img) {
		if bytes.HasPrefix(kv.K, []byte("epoch")) {
			continue
		}
		out = append(out, kv)
	}
	return out
}
