// Package report is the shared reporting layer of all checks: flags, evidence JSON,
// VIOLATION / KNOWN-FINDING lines, replay files, known-findings file.
package report

import (
	"bufio"
	"crypto/sha256"
	"encoding/hex"
	"encoding/json"
	"flag"
	"fmt"
	"os"
	"path/filepath"
	"sort"
	"strconv"
	"strings"
	"sync"
	"time"
)

type Run struct {
	ID        string
	Tier      string
	Seed      int64
	Verif     string
	Replay    string
	Deadline  time.Time
	start     time.Time
	mu        sync.Mutex
	viol      map[string]string // key -> replay path
	known     map[string]string // key -> text (from known_findings.txt)
	knownHit  map[string]bool
	Cov       map[string]interface{}
	samples   []interface{}
	outcomes  map[string]int
	Assume    []string
	Exhaustive bool
	caps      []string
}

// New parses the common flags. id is the property id ("C13").
func New(id string) *Run {
	tier := flag.String("tier", envOr("VERIF_TIER", "quick"), "quick|thorough")
	verif := flag.String("verif", "/verif", "verif root")
	replay := flag.String("replay", "", "replay file")
	budget := flag.Duration("budget", 0, "internal wall-clock budget (0 = tier default)")
	flag.Parse()
	seed, _ := strconv.ParseInt(envOr("VERIF_SEED", "0"), 10, 64)
	r := &Run{ID: id, Tier: *tier, Seed: seed, Verif: *verif, Replay: *replay, start: time.Now(),
		viol: map[string]string{}, known: map[string]string{}, knownHit: map[string]bool{},
		Cov: map[string]interface{}{}, outcomes: map[string]int{}, Exhaustive: true}
	if *budget > 0 {
		r.Deadline = r.start.Add(*budget)
	}
	r.loadKnown()
	return r
}

func envOr(k, d string) string {
	if v := os.Getenv(k); v != "" {
		return v
	}
	return d
}

func (r *Run) Thorough() bool { return r.Tier == "thorough" }

// SetBudget sets the internal deadline unless -budget was given.
func (r *Run) SetBudget(quick, thorough time.Duration) {
	if !r.Deadline.IsZero() {
		return
	}
	if r.Thorough() {
		r.Deadline = r.start.Add(thorough)
	} else {
		r.Deadline = r.start.Add(quick)
	}
}

// Expired reports whether the internal deadline has passed; the first time it does the
// run is marked non-exhaustive with the given cap note.
func (r *Run) Expired(what string) bool {
	if r.Deadline.IsZero() || time.Now().Before(r.Deadline) {
		return false
	}
	r.Cap("internal deadline reached during " + what)
	return true
}

func (r *Run) Cap(note string) {
	r.mu.Lock()
	defer r.mu.Unlock()
	r.Exhaustive = false
	for _, c := range r.caps {
		if c == note {
			return
		}
	}
	r.caps = append(r.caps, note)
}

func (r *Run) loadKnown() {
	f, err := os.Open(filepath.Join(r.Verif, "known_findings.txt"))
	if err != nil {
		return
	}
	defer f.Close()
	sc := bufio.NewScanner(f)
	for sc.Scan() {
		line := strings.TrimSpace(sc.Text())
		if !strings.HasPrefix(line, "finding:") {
			continue // "fixed:" lines and comments suppress nothing
		}
		fields := strings.Fields(line)
		var prop, key string
		for _, f := range fields {
			if strings.HasPrefix(f, "property=") {
				prop = strings.TrimPrefix(f, "property=")
			}
			if strings.HasPrefix(f, "key=") {
				key = strings.TrimPrefix(f, "key=")
			}
		}
		if prop == r.ID && key != "" {
			r.known[key] = line
		}
	}
}

// Sample records an explored case for the evidence file (first 8 kept).
func (r *Run) Sample(s interface{}) {
	r.mu.Lock()
	if len(r.samples) < 8 {
		r.samples = append(r.samples, s)
	}
	r.mu.Unlock()
}

// Outcome counts a distinct observed outcome class (vacuity indicator).
func (r *Run) Outcome(class string) {
	r.mu.Lock()
	r.outcomes[class]++
	r.mu.Unlock()
}

func (r *Run) Add(key string, n int) {
	r.mu.Lock()
	v, _ := r.Cov[key].(int)
	r.Cov[key] = v + n
	r.mu.Unlock()
}

func (r *Run) Get(key string) int {
	r.mu.Lock()
	defer r.mu.Unlock()
	v, _ := r.Cov[key].(int)
	return v
}

func (r *Run) Set(key string, v interface{}) {
	r.mu.Lock()
	r.Cov[key] = v
	r.mu.Unlock()
}

// Violation reports a property violation. key is the stable identity of the failing
// input / call site / history (it is matched against known_findings.txt); replay is
// any JSON-serialisable description from which `--replay` can re-execute the case.
// Returns true if it was new (not known, not already reported).
func (r *Run) Violation(key string, what string, replay interface{}) bool {
	r.mu.Lock()
	defer r.mu.Unlock()
	if _, ok := r.known[key]; ok {
		if !r.knownHit[key] {
			r.knownHit[key] = true
			fmt.Printf("KNOWN-FINDING: property=%s key=%s %s\n", r.ID, key, what)
		}
		return false
	}
	if _, dup := r.viol[key]; dup {
		return false
	}
	h := sha256.Sum256([]byte(key))
	path := filepath.Join(r.Verif, "replays", fmt.Sprintf("%s-%s.json", r.ID, hex.EncodeToString(h[:6])))
	os.MkdirAll(filepath.Dir(path), 0o755)
	b, _ := json.MarshalIndent(map[string]interface{}{"property": r.ID, "key": key, "what": what, "replay": replay}, "", " ")
	os.WriteFile(path, b, 0o644)
	r.viol[key] = path
	fmt.Printf("VIOLATION property=%s replay=%s\n", r.ID, path)
	fmt.Printf("  key=%s\n  %s\n", key, what)
	return true
}

func (r *Run) Violations() int {
	r.mu.Lock()
	defer r.mu.Unlock()
	return len(r.viol)
}

// Finish writes the evidence file and exits with the proper status.
func (r *Run) Finish(level string, rule string) {
	r.mu.Lock()
	cov := r.Cov
	cov["rule"] = rule
	if len(r.samples) == 0 {
		r.samples = append(r.samples, "no sample recorded")
	}
	cov["samples"] = r.samples
	cov["exhaustive"] = r.Exhaustive
	if len(r.caps) > 0 {
		cov["caps_hit"] = r.caps
	}
	if len(r.outcomes) > 0 {
		cov["distinct_outcomes"] = len(r.outcomes)
		keys := make([]string, 0, len(r.outcomes))
		for k := range r.outcomes {
			keys = append(keys, k)
		}
		sort.Strings(keys)
		oc := map[string]int{}
		for i, k := range keys {
			if i < 100 {
				oc[k] = r.outcomes[k]
			}
		}
		cov["outcome_histogram"] = oc
	}
	if len(r.knownHit) > 0 {
		var ks []string
		for k := range r.knownHit {
			ks = append(ks, k)
		}
		sort.Strings(ks)
		cov["known_findings_reproduced"] = ks
	}
	if _, ok := cov["evaluations"]; !ok {
		cov["evaluations"] = 0
	}
	if _, ok := cov["distinct_nontrivial"]; !ok {
		cov["distinct_nontrivial"] = len(r.outcomes)
	}
	if r.Assume == nil {
		r.Assume = []string{}
	}
	ev := map[string]interface{}{
		"property_id": r.ID,
		"tier":        r.Tier,
		"seed":        r.Seed,
		"level":       level,
		"coverage":    cov,
		"assumptions": r.Assume,
		"wall_s":      time.Since(r.start).Seconds(),
		"violations":  len(r.viol),
	}
	if hb, err := os.ReadFile("hashes.json"); err == nil {
		var h map[string]string
		if json.Unmarshal(hb, &h) == nil {
			cov["instrumented_sources"] = h
		}
	}
	nv := len(r.viol)
	r.mu.Unlock()
	b, _ := json.MarshalIndent(ev, "", " ")
	p := filepath.Join(r.Verif, "evidence", r.ID+".json")
	if d := os.Getenv("VERIF_EVIDENCE_DIR"); d != "" { // runs against a deliberately modified tree (--mutant) keep their evidence apart
		os.MkdirAll(d, 0o755)
		p = filepath.Join(d, r.ID+".json")
	}
	os.MkdirAll(filepath.Dir(p), 0o755)
	if err := os.WriteFile(p, b, 0o644); err != nil {
		fmt.Println("HARNESS-ERROR cannot write evidence:", err)
		os.Exit(2)
	}
	fmt.Printf("%s tier=%s violations=%d exhaustive=%v wall=%.1fs evidence=%s\n", r.ID, r.Tier, nv, r.Exhaustive, time.Since(r.start).Seconds(), p)
	if nv > 0 {
		os.Exit(1)
	}
	os.Exit(0)
}

// RacePass folds the reports of the separate free-running -race pass (written by the race
// runtime to files named by VERIF_RACE_LOGS) into this run: a data race is a violation.
// RaceKey, if set by a property, maps a race report to a stable key (call-site class) before
// the default "first two source lines" key is used; "" = use the default.
var RaceKey func(rep string) string

func (r *Run) RacePass() {
	prefix := os.Getenv("VERIF_RACE_LOGS")
	if prefix == "" {
		r.Set("race_pass", "not run")
		return
	}
	files, _ := filepath.Glob(prefix + "*")
	races := 0
	for _, f := range files {
		b, err := os.ReadFile(f)
		if err != nil {
			continue
		}
		txt := string(b)
		for _, rep := range strings.Split(txt, "==================") {
			if !strings.Contains(rep, "DATA RACE") {
				continue
			}
			races++
			// key: the first two source locations inside the repository
			var locs []string
			for _, line := range strings.Split(rep, "\n") {
				line = strings.TrimSpace(line)
				if strings.HasPrefix(line, "/repo/") {
					if i := strings.Index(line, " "); i > 0 {
						line = line[:i]
					}
					locs = append(locs, strings.TrimPrefix(line, "/repo/"))
					if len(locs) == 2 {
						break
					}
				}
			}
			if len(locs) == 0 {
				continue // a race inside the harness itself, not in the repository
			}
			if RaceKey != nil {
				if k := RaceKey(rep); k != "" {
					if len(rep) > 2500 {
						rep = rep[:2500]
					}
					r.Violation(k, "the free-running -race pass reports a data race at "+strings.Join(locs, " / "), map[string]interface{}{"report": rep})
					continue
				}
			}
			if len(rep) > 2500 {
				rep = rep[:2500]
			}
			r.Violation("data-race:"+strings.Join(locs, "+"), "the free-running -race pass reports a data race at "+strings.Join(locs, " / "), map[string]interface{}{"report": rep})
		}
	}
	r.Set("race_pass", map[string]interface{}{"log_files": len(files), "race_reports": races, "note": "sampling pass (free-running goroutines under the race detector); it only answers 'race report present/absent' and does not decide the interleaving claims"})
}

// HarnessError aborts with exit 2 (never a VIOLATION).
func HarnessError(format string, a ...interface{}) {
	fmt.Printf("HARNESS-ERROR "+format+"\n", a...)
	os.Exit(2)
}
