// Package sched is the controlled scheduler and the preemption-bounded DFS explorer.
//
// Logical threads are real goroutines, but exactly one runs at a time: every vsync / vatomic
// operation, channel wait, Sleep, spawn and thread exit hands control to the scheduler, which
// picks the next thread from the enabled set. Time is virtual and advances only when no thread
// is enabled (discrete-event). Exploration is stateless DFS over choice sequences with
// iterative preemption bounding: switching away from a thread that is still enabled costs one
// preemption; forced switches are free. Replaying a prefix that diverges is a hard error.
package sched

import (
	"fmt"
	"sort"
	"sync"
	"time"

	"github.com/idena-network/idena-go/verifhook"
	"github.com/idena-network/idena-go/verifhook/vsync"
)

type thread struct {
	id     int
	name   string
	resume chan bool // true = continue, false = die (horizon reached)
	done   bool
	ready  func() bool // non-nil: blocked until ready()
	wake   time.Time   // non-zero: sleeping until virtual time >= wake
}

type Point struct {
	Enabled             int
	RunningStillEnabled bool
	Chosen              int
}

type killSentinel struct{}

type Exec struct {
	// Free: no scheduler at all - real goroutines, real time (used by the -race pass)
	Free     bool
	freeWG   sync.WaitGroup
	threads  []*thread
	cur      *thread
	yield    chan struct{}
	now      time.Time
	horizon  time.Time
	prefix   []int
	Points   []Point
	Deadlock string
	Panic    interface{}
	Diverged string
	steps    int
}

var active *Exec

// hook implementation
type hook struct{}

func (hook) Point(what string) {
	e := active
	if e == nil || e.cur == nil {
		return
	}
	e.switchOut()
}

func (hook) Block(what string, ready func() bool) {
	e := active
	if e == nil || e.cur == nil {
		return
	}
	t := e.cur
	for !ready() {
		t.ready = ready
		e.switchOut()
	}
	t.ready = nil
}

// switchOut parks the current thread and lets the scheduler decide; returns when resumed.
func (e *Exec) switchOut() {
	t := e.cur
	e.yield <- struct{}{}
	if !<-t.resume {
		panic(killSentinel{})
	}
}

// Go spawns a logical thread (used for `go` statements of instrumented code and by harnesses).
func (e *Exec) Go(name string, f func()) {
	if e.Free {
		go func() {
			defer func() { recover() }()
			f()
		}()
		return
	}
	t := &thread{id: len(e.threads), name: name, resume: make(chan bool)}
	e.threads = append(e.threads, t)
	go func() {
		if !<-t.resume {
			t.done = true
			e.yield <- struct{}{}
			return
		}
		defer func() {
			if p := recover(); p != nil {
				if _, ok := p.(killSentinel); !ok && e.Panic == nil {
					e.Panic = fmt.Sprintf("thread %s: %v", t.name, p)
				}
			}
			t.done = true
			e.yield <- struct{}{}
		}()
		f()
	}()
}

// Sleep blocks the calling logical thread for d of virtual time.
func (e *Exec) Sleep(d time.Duration) {
	if e.Free {
		time.Sleep(d)
		return
	}
	t := e.cur
	if t == nil {
		return
	}
	if d <= 0 {
		e.switchOut()
		return
	}
	t.wake = e.now.Add(d)
	e.switchOut()
}

func (e *Exec) Now() time.Time {
	if e.Free {
		return time.Now()
	}
	return e.now
}

// RunFree runs body with real goroutines and real time for the given duration (race pass).
func RunFree(d time.Duration, body func(e *Exec)) {
	verifhook.SetNow(time.Time{})
	e := &Exec{Free: true}
	body(e)
	time.Sleep(d)
}

func (e *Exec) enabledList() []*thread {
	var en []*thread
	if c := e.cur; c != nil && !c.done && c.wake.IsZero() && (c.ready == nil || c.ready()) {
		en = append(en, c)
	}
	var rest []*thread
	for _, t := range e.threads {
		if t == e.cur || t.done || !t.wake.IsZero() {
			continue
		}
		if t.ready == nil || t.ready() {
			rest = append(rest, t)
		}
	}
	sort.Slice(rest, func(i, j int) bool { return rest[i].id < rest[j].id })
	return append(en, rest...)
}

// Run executes body as thread 0 under the prefix, default choice 0 afterwards.
func Run(prefix []int, start time.Time, horizon time.Duration, maxSteps int, body func(e *Exec)) *Exec {
	e := &Exec{yield: make(chan struct{}), now: start, horizon: start.Add(horizon), prefix: prefix}
	active = e
	vsync.H = hook{}
	verifhook.SetNow(start)
	verifhook.Sleeper = func(d time.Duration) { e.Sleep(d) }
	verifhook.Spawner = func(site string, f func()) { e.Go(site, f) }
	defer func() {
		vsync.H = nil
		verifhook.Sleeper = nil
		verifhook.Spawner = nil
		active = nil
	}()
	e.Go("main", func() { body(e) })
	for {
		e.steps++
		en := e.enabledList()
		if len(en) == 0 {
			// advance virtual time to the earliest sleeper
			var next *thread
			for _, t := range e.threads {
				if !t.done && !t.wake.IsZero() && (next == nil || t.wake.Before(next.wake)) {
					next = t
				}
			}
			if next == nil {
				blocked := 0
				for _, t := range e.threads {
					if !t.done {
						blocked++
						e.Deadlock += t.name + " "
					}
				}
				if blocked == 0 {
					e.Deadlock = ""
				}
				break
			}
			if next.wake.After(e.horizon) {
				break // horizon reached
			}
			e.now = next.wake
			verifhook.SetNow(e.now)
			for _, t := range e.threads {
				if !t.done && !t.wake.IsZero() && !t.wake.After(e.now) {
					t.wake = time.Time{}
				}
			}
			continue
		}
		if maxSteps > 0 && e.steps > maxSteps {
			e.Diverged = "step limit"
			break
		}
		choice := 0
		i := len(e.Points)
		if i < len(e.prefix) {
			choice = e.prefix[i]
			if choice >= len(en) {
				e.Diverged = fmt.Sprintf("replay diverged at point %d: choice %d of %d enabled", i, choice, len(en))
				break
			}
		}
		still := e.cur != nil && len(en) > 0 && en[0] == e.cur
		e.Points = append(e.Points, Point{Enabled: len(en), RunningStillEnabled: still, Chosen: choice})
		e.cur = en[choice]
		e.cur.resume <- true
		<-e.yield
	}
	// kill whatever is left (parked threads)
	for _, t := range e.threads {
		if !t.done {
			e.cur = t
			t.resume <- false
			<-e.yield
		}
	}
	e.cur = nil
	return e
}

// Choices returns the choice sequence of the execution.
func (e *Exec) Choices() []int {
	c := make([]int, len(e.Points))
	for i, p := range e.Points {
		c[i] = p.Chosen
	}
	return c
}

func (e *Exec) preemptionsBefore(i int) int {
	n := 0
	for j := 0; j < i; j++ {
		if e.Points[j].RunningStillEnabled && e.Points[j].Chosen != 0 {
			n++
		}
	}
	return n
}

type Stats struct {
	Executions int
	MaxPoints  int
	Truncated  bool
}

// Explore runs the DFS with the given preemption bound. check is called for every complete
// execution; returning false stops the exploration.
func Explore(bound int, maxExec int, start time.Time, horizon time.Duration, body func(e *Exec), check func(e *Exec) bool) Stats {
	var st Stats
	stop := false
	var rec func(prefix []int)
	rec = func(prefix []int) {
		if stop {
			return
		}
		if maxExec > 0 && st.Executions >= maxExec {
			st.Truncated = true
			return
		}
		x := Run(prefix, start, horizon, 200000, body)
		st.Executions++
		if len(x.Points) > st.MaxPoints {
			st.MaxPoints = len(x.Points)
		}
		if !check(x) {
			stop = true
			return
		}
		for i := len(prefix); i < len(x.Points); i++ {
			p := x.Points[i]
			base := x.preemptionsBefore(i)
			for alt := 1; alt < p.Enabled; alt++ {
				cost := base
				if p.RunningStillEnabled {
					cost++
				}
				if cost > bound {
					continue
				}
				np := append(append([]int{}, x.Choices()[:i]...), alt)
				rec(np)
				if stop {
					return
				}
			}
		}
	}
	rec(nil)
	return st
}
