#!/bin/bash
# tools/seedrun.sh <patch file> <check ID> [label]  - applies a temporary patch to /repo (with the lock protocol of
# runthorough.sh), runs the quick check with separate build and evidence directories, reverts, prints the result.
cd "$(dirname "$0")/.."
pf="$1"; chk="$2"; label="${3:-seed}"
touch .build/repo.lock; sleep 2
while [ -e .build/thorough.building ] || ls .build/building.* >/dev/null 2>&1; do sleep 3; done
if ! git -C /repo apply --check "$pf" 2>/dev/null; then echo "== $label: patch does not apply"; rm -f .build/repo.lock; exit 3; fi
git -C /repo apply "$pf"
# build while the patch is applied, then release /repo before the (long) run
export VERIF_BUILD_TAG=seed VERIF_EVIDENCE_DIR=/verif/.build/seed-evidence
VERIF_LOCK_HOLDER=1 VERIF_BUILD_ONLY=1 ./check $chk > .build/seed-$label-$chk.build.log 2>&1
git -C /repo checkout -- .
rm -f .build/repo.lock
VERIF_SKIP_BUILD=1 ./check $chk > .build/seed-$label-$chk.log 2>&1
rc=$?
echo "== $label check $chk rc=$rc $(grep -c '^VIOLATION' .build/seed-$label-$chk.log) violations"
grep "key=" .build/seed-$label-$chk.log | sort | uniq -c | sort -rn | head -4 | cut -c1-200
tail -1 .build/seed-$label-$chk.log | cut -c1-160
