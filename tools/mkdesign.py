#!/usr/bin/env python3
"""Assembles DESIGN.md from tools/design_parts/*.md and the seeded-change table (seeded/*/meta.json)."""
import json, glob, os
root = os.path.join(os.path.dirname(os.path.abspath(__file__)), "..")
rows = ["| seeded change | property | needs, to manifest | result of the check |", "|---|---|---|---|"]
for f in sorted(glob.glob(os.path.join(root, "seeded", "*", "meta.json"))):
    m = json.load(open(f))
    cell = lambda s: str(s).replace("|", "/").replace("\n", " ")
    rows.append("| `%s` | %s | %s | %s |" % (m["seed"], m["property"], cell(m.get("needs_to_manifest", "")), cell(m.get("check_result", ""))))
parts = [open(p).read() for p in sorted(glob.glob(os.path.join(root, "tools", "design_parts", "*.md")))]
doc = "".join(parts).replace("SEEDED_TABLE", "\n".join(rows))
open(os.path.join(root, "DESIGN.md"), "w").write(doc)
print("DESIGN.md written,", len(doc.splitlines()), "lines")
