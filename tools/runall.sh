#!/bin/bash
# runs every registered check once (tier $1, default quick) and prints one line per check
cd "$(dirname "$0")/.."
TIER="${1:-quick}"
for id in C01 C02 C03 C04 C05 C06 C07 C08 C09 C10 C11 C12 C13 C14 C15 C16 C17 C18 C19 C20; do
  s=$(date +%s)
  ./check $id --tier $TIER > .build/runall-$id.log 2>&1
  rc=$?
  e=$(date +%s)
  echo "$id rc=$rc wall=$((e-s))s $(grep -c '^VIOLATION' .build/runall-$id.log) violations, $(grep -c '^KNOWN-FINDING' .build/runall-$id.log) known | $(tail -1 .build/runall-$id.log | cut -c1-120)"
done
