#!/usr/bin/env python3
import json,sys,glob,jsonschema
sch=json.load(open('/root/.vp/EVIDENCE.schema.json'))
bad=0
for f in sorted(glob.glob('/verif/evidence/*.json')):
    try:
        jsonschema.validate(json.load(open(f)),sch); print('ok ',f)
    except Exception as e:
        bad+=1; print('BAD',f,str(e)[:200])
sys.exit(1 if bad else 0)
