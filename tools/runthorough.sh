#!/bin/bash
# runs every registered check once in the thorough tier and keeps a copy of each evidence file under evidence-thorough/
cd "$(dirname "$0")/.."
mkdir -p evidence-thorough
for id in ${@:-C13 C16 C18 C19 C07 C20 C12 C03 C08 C02 C04 C05 C06 C09 C10 C11 C14 C15 C17 C01}; do
  s=$(date +%s)
  cp evidence/$id.json .build/quick-$id.json 2>/dev/null
  ./check $id --tier thorough > .build/thorough-$id.log 2>&1
  rc=$?
  e=$(date +%s)
  cp evidence/$id.json evidence-thorough/$id.json
  cp .build/quick-$id.json evidence/$id.json 2>/dev/null
  echo "$id rc=$rc wall=$((e-s))s $(grep -c '^VIOLATION' .build/thorough-$id.log) violations, $(grep -c '^KNOWN-FINDING' .build/thorough-$id.log) known | $(tail -1 .build/thorough-$id.log | cut -c1-120)"
done
