#!/bin/bash
# Runs every registered check once in the thorough tier and keeps a copy of each evidence file
# under evidence-thorough/ (the quick-tier evidence file is put back afterwards).
# .build/repo.lock         = somebody has a temporary patch applied to /repo: do not start a build
# .build/thorough.building = this runner is in a build phase: do not patch /repo now
cd "$(dirname "$0")/.."
mkdir -p evidence-thorough
for id in ${@:-C16 C18 C19 C07 C20 C12 C03 C08 C02 C04 C05 C06 C09 C10 C11 C13 C14 C15 C17 C01}; do
  while true; do
    touch .build/thorough.building
    if [ -e .build/repo.lock ]; then rm -f .build/thorough.building; sleep 5; continue; fi
    break
  done
  ( sleep 150; rm -f .build/thorough.building ) &
  s=$(date +%s)
  cp evidence/$id.json .build/quick-$id.json 2>/dev/null
  ./check $id --tier thorough > .build/thorough-$id.log 2>&1
  rc=$?
  e=$(date +%s)
  cp evidence/$id.json evidence-thorough/$id.json
  cp .build/quick-$id.json evidence/$id.json 2>/dev/null
  echo "$id rc=$rc wall=$((e-s))s $(grep -c '^VIOLATION' .build/thorough-$id.log) violations, $(grep -c '^KNOWN-FINDING' .build/thorough-$id.log) known | $(tail -1 .build/thorough-$id.log | cut -c1-120)"
done
rm -f .build/thorough.building
