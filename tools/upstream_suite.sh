#!/bin/bash
# tools/upstream_suite.sh [rev]  - runs the WHOLE upstream test suite (all packages, not only the pinned 262 tests) of
# /repo at <rev> (default HEAD) in a scratch worktree under /tmp with the kubo-free ipfs stub overlay, prints
# pass/fail counts and the failing tests, removes the worktree. Used after every "fix:" commit to compare with the
# base commit (the two random-key TestOracleVoting_* tests fail on every revision).
export GOFLAGS=-mod=mod GOPROXY=off GOSUMDB=off GOTOOLCHAIN=local
rev="${1:-HEAD}"
wt=/tmp/wt-suite-$$; bd=/tmp/wt-suite-$$-build
git -C /repo worktree add -q --detach $wt "$rev" || exit 2
mkdir -p $bd
/verif/.build/bin/vbuild -repo $wt -verif /verif -out $bd/full >/dev/null 2>&1
python3 - "$bd" <<'EOF'
import json,sys,shutil
bd=sys.argv[1]
ov=json.load(open(bd+'/full/overlay.json'))
k=[x for x in ov['Replace'] if x.endswith('/ipfs/ipfs.go')][0]
shutil.copy(ov['Replace'][k], bd+'/ipfs_stub.go')
json.dump({'Replace':{k:bd+'/ipfs_stub.go'}}, open(bd+'/overlay.json','w'))
shutil.rmtree(bd+'/full')
EOF
( cd $wt && go test -overlay $bd/overlay.json -vet=off -count=1 -json ./... 2>/dev/null > $bd/all.json )
python3 - "$bd/all.json" "$rev" <<'EOF'
import json,sys
p=set();fl=set()
for l in open(sys.argv[1]):
    try: d=json.loads(l)
    except: continue
    if d.get('Test') and d.get('Action') in('pass','fail'):
        (p if d['Action']=='pass' else fl).add(d['Package'].split('idena-go/')[-1]+'::'+d['Test'])
print(f"rev={sys.argv[2]} tests={len(p|fl)} pass={len(p-fl)} fail={len(fl)}")
for t in sorted(fl): print("  FAIL", t)
EOF
git -C /repo worktree remove --force $wt
rm -rf $bd
