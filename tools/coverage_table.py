#!/usr/bin/env python3
"""Prints the measured sizes of the committed evidence files as one table."""
import json, glob, os, sys
DIR = sys.argv[1] if len(sys.argv) > 1 else "evidence"  # e.g. evidence-thorough
rows = []
for f in sorted(glob.glob(os.path.join(os.path.dirname(__file__), "..", DIR, "C*.json"))):
    e = json.load(open(f))
    c = e["coverage"]
    def g(*ks):
        for k in ks:
            if k in c and isinstance(c[k], (int, float)):
                return c[k]
        return ""
    rows.append((e["property_id"], e["tier"], e["level"], g("states"), g("transitions", "evaluations"), g("schedules_explored", "crash_points", "gas_sweep_runs", "deliveries"),
                 g("distinct_outcomes"), c.get("exhaustive"), e.get("wall_s"), e.get("violations")))
print("| id | tier | level | states | transitions/evaluations | schedules / crash points / sweep runs / deliveries | distinct outcomes | exhaustive | wall s | violations |")
print("|---|---|---|---|---|---|---|---|---|---|")
for r in rows:
    print("| " + " | ".join(str(x) for x in r) + " |")
