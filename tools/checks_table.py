chk("C13", "model_checking",
    "explicit-state search of the real BackedMemDb's closed state space against a reference MemDB; chain-level before/after image comparison around every speculative call",
    "Part (a): every reachable state (inner store x touched set) of the real copy-on-write store over a 3-4 key alphabet and every base content is visited, every mutating operation is taken from every state and every read/iterator form is compared with a plain MemDB; this is complete for the alphabet, not depth-bounded. Parts (b),(c): chain-level isolation around speculative calls and exactness of Readonly(h) on generated chains.",
    "Trusts tm-db MemDB as the reference store; keys/values outside the alphabet assumed to behave alike (store only orders/compares keys).",
    "DESIGN.md 5/C13", "enum")
