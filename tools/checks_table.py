chk("C13", "model_checking",
    "explicit-state search of the real BackedMemDb's closed state space against a reference MemDB; chain-level before/after image comparison around every speculative call",
    "Part (a): every reachable state (inner store x touched set) of the real copy-on-write store over a 3-4 key alphabet and every base content is visited, every mutating operation is taken from every state and every read/iterator form is compared with a plain MemDB; this is complete for the alphabet, not depth-bounded. Parts (b),(c): chain-level isolation around speculative calls and exactness of Readonly(h) on generated chains.",
    "Trusts tm-db MemDB as the reference store; keys/values outside the alphabet assumed to behave alike (store only orders/compares keys).",
    "DESIGN.md 5/C13", "enum")
chk("C02", "model_checking",
    "explicit-state BFS over real block transitions with a proposer replica and an independent validating replica",
    "Every reachable base state (driving alphabet, 3 genesis families, depth bound) x every singleton and ordered pair (thorough: triples) of a 70-template state-relative tx menu: the real ProposeBlock output is validated and inserted by a fresh replica with another node key through the real AddBlock; head hash, both roots and the shared database content must agree. Exhaustive within the stated alphabet and depth.",
    "memoryIpfs CIDs instead of kubo; fixed keys; mempool/state map iteration pinned to canonical order by the maporder overlay (order variation is explored under C01).",
    "DESIGN.md 5/C02", "chainmc")
chk("C04", "model_checking",
    "explicit-state BFS over real block transitions; full ledger iteration after every block; issuance bound + with/without-transactions differential",
    "Every transition of the C02-style search (incl. a macro that runs a whole ceremony to the epoch-finishing block) sums all balances, stakes and contract stakes of the committed state before and after; the delta is bounded by the block kind's issuance and by the same block proposed without the transactions. Exhaustive within alphabet and depth.",
    "A negative intermediate is observable only as growth of the total (sign-dropping encoding); validation results in explored epochs come from chains without ceremony participants unless the C17 driver is used.",
    "DESIGN.md 5/C04", "chainmc")
chk("C05", "model_checking",
    "explicit-state BFS over real block transitions; per-address differential of the block with exactly one tx against the tx-less block of the same proposer and time",
    "From every base state (3 scenarios incl. one with a pool, a staked invitee and a funded contract) ~1000 single-transaction templates are offered, covering every tx type with a recipient x 6 signer classes x 15 target relationship classes; any address other than the signer whose balance+stake+contract stake is lower than in the tx-less block is a violation unless it is exactly one of the three named exceptions (all three are observed).",
    "Only the inclusion block is compared (delayed effects a signer chooses for itself are outside the claim); transactions that validation refuses never reach a block, so a missing relationship check shows up as an admitted tx with a foreign loss.",
    "DESIGN.md 5/C05", "chainmc")
