chk("C13", "model_checking",
    "explicit-state search of the real BackedMemDb's closed state space against a reference MemDB; chain-level before/after image comparison around every speculative call",
    "Part (a): every reachable state (inner store x touched set) of the real copy-on-write store over a 3-4 key alphabet and every base content is visited, every mutating operation is taken from every state and every read/iterator form is compared with a plain MemDB; this is complete for the alphabet, not depth-bounded. Parts (b),(c): chain-level isolation around speculative calls and exactness of Readonly(h) on generated chains.",
    "Trusts tm-db MemDB as the reference store; keys/values outside the alphabet assumed to behave alike (store only orders/compares keys).",
    "DESIGN.md 5/C13", "enum")
chk("C02", "model_checking",
    "explicit-state BFS over real block transitions with a proposer replica and an independent validating replica",
    "Every reachable base state (driving alphabet, 3 genesis families, depth bound) x every singleton and ordered pair (thorough: triples) of a 70-template state-relative tx menu: the real ProposeBlock output is validated and inserted by a fresh replica with another node key through the real AddBlock; head hash, both roots and the shared database content must agree. Exhaustive within the stated alphabet and depth.",
    "memoryIpfs CIDs instead of kubo; fixed keys; mempool/state map iteration pinned to canonical order by the maporder overlay (order variation is explored under C01).",
    "DESIGN.md 5/C02", "chainmc")
chk("C04", "model_checking",
    "explicit-state BFS over real block transitions; full ledger iteration after every block; issuance bound + with/without-transactions differential",
    "Every transition of the C02-style search (incl. a macro that runs a whole ceremony to the epoch-finishing block) sums all balances, stakes and contract stakes of the committed state before and after; the delta is bounded by the block kind's issuance and by the same block proposed without the transactions. Exhaustive within alphabet and depth.",
    "A negative intermediate is observable only as growth of the total (sign-dropping encoding); validation results in explored epochs come from chains without ceremony participants unless the C17 driver is used.",
    "DESIGN.md 5/C04", "chainmc")
chk("C05", "model_checking",
    "explicit-state BFS over real block transitions; per-address differential of the block with exactly one tx against the tx-less block of the same proposer and time",
    "From every base state (3 scenarios incl. one with a pool, a staked invitee and a funded contract) ~1000 single-transaction templates are offered, covering every tx type with a recipient x 6 signer classes x 15 target relationship classes; any address other than the signer whose balance+stake+contract stake is lower than in the tx-less block is a violation unless it is exactly one of the three named exceptions (all three are observed).",
    "Only the inclusion block is compared (delayed effects a signer chooses for itself are outside the claim); transactions that validation refuses never reach a block, so a missing relationship check shows up as an admitted tx with a foreign loss.",
    "DESIGN.md 5/C05", "chainmc")
chk("C06", "model_checking",
    "explicit-state BFS over histories of real block transitions with the included-transaction history as part of the state; every earlier tx re-offered at every later state",
    "All histories up to the depth bound over 10 actions (sends that compete and empty accounts, nonce gap, future-epoch tx, identity txs, empty block, a macro that runs a whole ceremony to the epoch change with dust clearing). At every transition every previously included tx is re-offered to the real pool, to the strict processTxs on a fresh check state (pool bypass) and to the building path; all inserted tx lists are checked for duplicates, per-(sender,epoch) nonce continuity and epoch equality.",
    "Reorg histories are exercised by C08's driver.",
    "DESIGN.md 5/C06", "chainmc")
chk("C10", "model_checking",
    "explicit-state BFS over histories of identity-changing events; incremental validator view of a never-restarted replica vs fresh load, getter by getter",
    "All histories up to the depth bound over 18 identity-event actions (switch ranges lowered to 2 so that all batchings into identity-update blocks occur). After every block a replica that followed the whole history from genesis without restart, the replica restarted one block earlier, and the ForCheck/Readonly clones are compared with NewValidatorsCache(...).Load() on the same committed identity state over every public getter (sizes, per-address flags, pool sizes, FindSubIdentity for all nonces, committees for 3 seeds x 3 steps x 3 limits); the stored registry is compared with the identity ledger.",
    "State key = chain state + fingerprint of the live view, so histories are merged only when both coincide.",
    "DESIGN.md 5/C10", "chainmc")
chk("C08", "model_checking",
    "exhaustive enumeration of chain pairs x certificate shapes fed to the real ForkResolver.processBlocks / ApplyFork, compared with a reference replica that followed the fork",
    "All (ancestor depth) x (own branch kind sequences) x (fork kind sequences over empty / proposed / with-tx / kill / offline-switch blocks) x 7 tip certificate shapes x 3 interior certificate policies x tampering (wrong root, missing height) up to the length bound. Oracles: accepted => every block valid on a reference replica, tip certified, identity-update blocks certified; adoption == reference (head, roots, validator view, canonical hashes, stored identity diffs, tx index, abandoned headers gone); reverted tx list exact; refusal leaves the database untouched; panics are violations.",
    "Committee {V1,V2,P} (threshold 2) on a G2 chain; certificates signed with the fixed keys; quorum arithmetic itself is C07's subject.",
    "DESIGN.md 5/C08", "enum+replica")
chk("C11", "model_checking",
    "explicit-state BFS over histories incl. reorganisations with diff-replaying followers; exhaustive single-fault corruption of snapshot archives",
    "(a) All histories up to the depth bound over 19 actions (identity events, epoch macro, 8 reorganisation actions). After every transition a follower holding only the genesis identity state replays every diff the node serves (GetIdentityDiff) exactly like protocol/fast.go, for the restarted node and for a never-restarted node that went through the reorgs; identity root per height and the resulting validator view must match. (b) WriteTreeTo2/ReadTreeFrom2 round trip (root, contents, byte-identical re-export) for every explored state and synthetic trees around SnapshotBlockSize. (c) every single-bit flip, byte substitution and truncation of small archives and every member drop/duplicate/swap of multi-member ones: accepted => advertised root and contents, refused => empty target, never panic/hang.",
    "Crash model for (c) is single-fault; multi-fault corruptions are outside the bound.",
    "DESIGN.md 5/C11", "chainmc+enum")
chk("C09", "fault_enumeration",
    "write-log prefix (crash point) enumeration of the real AddBlock / ResetTo+AddBlock on a logging database, for every operation of an explicit-state search over histories",
    "For every block insertion and every fork switch of every explored history (BFS over 11 actions: txs with receipts, identity updates, snapshot blocks, the epoch macro incl. the epoch-finishing block, 4 fork-switch actions; 4 scenarios incl. a 101-block chain where insertions prune old tree versions) every prefix of the recorded write log is crash-tested: normal start-up, head roots == loaded trees, head within the retained window and on the reference chain, catch-up to the reference head and roots, canonical / identity-diff / tx indexes equal the reference's; a clean restart changes nothing observable.",
    "Crash model: prefix of the write log, batches atomic (goleveldb journal); torn single writes and reordering below LevelDB out of scope; AtomicSwitchToPreliminary not driven yet.",
    "DESIGN.md 5/C09", "chainmc+crashdb")
chk("C03", "model_checking",
    "explicit-state BFS producing the corpus of honest blocks; exhaustive application of a tampering-operator set per block against a validator replica; building-path rebuild as consistency oracle",
    "Every honest block of the search (proposed/empty, with receipts, identity-update, snapshot, ceremony-period, epoch-finishing) x ~70 header operators (bit flips, +-1, nil/zero, another block's value, time-window violations, foreign proposer keys, every persistent flag bit, unknown upgrade) x body edits (drop/duplicate/swap/append foreign-epoch or unaffordable tx, with and without recomputed commitments). A tampered block must be rejected unless the building path derived from ProposeBlock reproduces it; after every rejection the validator's database image, head, tree versions and working roots are unchanged; the honest original is inserted afterwards.",
    "The proposer's free choices (time inside the window, offline flags, upgrade bits, absent fee rate, VRF proof randomness) are not tampered with; CIDs via memoryIpfs.",
    "DESIGN.md 5/C03", "chainmc")
chk("C01", "model_checking",
    "explicit-state BFS over real block transitions; per transition exhaustive (deviation-bounded) enumeration of map/set iteration orders at instrumented choice points, host time zones, wall clocks and node histories; differential byte comparison",
    "The maporder overlay turns every range over a map and every golang-set iteration in the state-transition packages (85 sites) into an explicit choice point. For every transition the block is re-applied on fresh replicas under every order strategy at every site that fired (n<=4: all n! orders; else reverse/rotations/transpositions; thorough: pairs of sites), in 6 host time zones, at 2 later wall clocks, and on replicas with different histories (never restarted, protocol/full.go-style long-lived check state, reorged from an empty/proposed sibling, speculative fork validation while holding the sibling, proposer-warmed caches); results must be byte-identical (roots, global parameters, identity diff, receipts, database image). GetNextValidationTime is enumerated separately over sizes x times x flags x zones.",
    "memoryIpfs CIDs; lottery goroutine pinned to inline; orders needing >=3 simultaneously deviating sites outside the bound; epoch results with participants come from C17's driver.",
    "DESIGN.md 5/C01", "chainmc+maporder")
chk("C17", "model_checking",
    "bounded-exhaustive enumeration of the status decision table; explicit-state BFS over whole ceremonies with cross-evaluation by differently-historied replicas",
    "(a) 8.06M tuples of determineNewIdentityState (all prior states x flags x float32 neighbours of every threshold): rule invariants of the statement and functionality. (b) BFS over complete validations on a 5-participant network: every split of hash / short / long / evidence transactions (subsets, intra-block orders, hostile evidence maps, reveal not matching the commitment) over the session blocks; every block is built by a node restarted before that block (restoreState path), validated by a fresh replica (first evaluation), by a never-restarted node that followed the whole ceremony, and by a node that re-evaluates the height from its cache after proposing; rule invariants on every applied epoch result; one epoch result per set of on-chain ceremony transactions regardless of arrival blocks.",
    "'Missed' is taken as the protocol can observe it (short+long answers on chain and evidence majority); a failed validation (nobody validated) keeps all statuses by protocol design and is outside the rule invariants; map-order deviations on the epoch block are enumerated by C01 on the same driver.",
    "DESIGN.md 5/C17", "enum+chainmc")
chk("C19", "model_checking",
    "bounded-exhaustive enumeration of request shapes (kind x key form, all batches up to the length bound) against the real rpc.Server with a probe service over all transports",
    "Alphabet of 11 request kinds x 15 key forms = 165 elements (missing/empty/wrong/prefix/suffix/case/null/numeric/array keys, duplicate members in both orders, member spelled Key/KEY, calls, unknown methods, subscribe/unsubscribe, missing id, malformed method, oddly typed params). Every single request and every batch of length <= 3 over the full alphabet (4.5M requests) plus length 4 over a reduced alphabet through the real JSON codec; singles and keyed/keyless pairs in both positions over HTTP, WebSocket and unix-socket IPC; keyless unsubscribe of a live subscription. Probe counters must equal the keyed elements; keyless well-formed elements must get code -32800.",
    "'Carries the key' follows encoding/json semantics (case-insensitive member names, last duplicate wins).",
    "DESIGN.md 5/C19", "enum")
chk("C18", "exploration",
    "reflection-driven bounded-exhaustive enumeration of field values of every encodable type; round trip, re-encoding stability, field influence, signature binding",
    "49 types (registry cross-checked at run time against every ToBytes/FromBytes pair in the anchored source files): a base object with every exported and unexported field populated with a distinguishing value; every field x every value of its small domain and every pair of fields; decode(encode(x)) == x modulo documented normalisations, encode(decode(encode(x))) == encode(x), Hash() stable, every field influences the encoding unless on a written transient allow-list; for the 6 signed types every non-signature field change must change the recovered signer.",
    "Values between the listed representatives are outside the bound; maps are populated with one entry (UpgradeVotes' map-ordered encoding with >=2 entries is node-local storage, not hashed).",
    "DESIGN.md 5/C18", "enum")
