chk("C13", "model_checking",
    "explicit-state search of the real BackedMemDb's closed state space against a reference MemDB; chain-level before/after image comparison around every speculative call",
    "Part (a): every reachable state (inner store x touched set) of the real copy-on-write store over a 3-4 key alphabet and every base content is visited, every mutating operation is taken from every state and every read/iterator form is compared with a plain MemDB; this is complete for the alphabet, not depth-bounded. Parts (b),(c): chain-level isolation around speculative calls and exactness of Readonly(h) on generated chains.",
    "Trusts tm-db MemDB as the reference store; keys/values outside the alphabet assumed to behave alike (store only orders/compares keys).",
    "DESIGN.md 5/C13", "enum")
chk("C02", "model_checking",
    "explicit-state BFS over real block transitions with a proposer replica and an independent validating replica",
    "Every reachable base state (driving alphabet, 3 genesis families, depth bound) x every singleton and ordered pair (thorough: triples) of a 70-template state-relative tx menu: the real ProposeBlock output is validated and inserted by a fresh replica with another node key through the real AddBlock; head hash, both roots and the shared database content must agree. Exhaustive within the stated alphabet and depth.",
    "memoryIpfs CIDs instead of kubo; fixed keys; mempool/state map iteration pinned to canonical order by the maporder overlay (order variation is explored under C01).",
    "DESIGN.md 5/C02", "chainmc")
