#!/bin/bash
# tools/seedbatch.sh "<label> <patch> <checkID>" ...  - for each triple: apply the patch to /repo (lock protocol of
# runthorough.sh), build the check under its own build tag, revert /repo; afterwards run the checks (3 at a time) from
# those builds with separate evidence directories and print one result line per triple.
cd "$(dirname "$0")/.."
jobs=()
for t in "$@"; do
  set -- $t; label=$1; pf=$2; chk=$3
  touch .build/repo.lock; sleep 2
  while [ -e .build/thorough.building ] || ls .build/building.* >/dev/null 2>&1; do sleep 3; done
  if ! git -C /repo apply --check "$pf" 2>/dev/null; then echo "== $label: patch does not apply"; rm -f .build/repo.lock; continue; fi
  git -C /repo apply "$pf"
  VERIF_BUILD_TAG=seed-$label VERIF_EVIDENCE_DIR=/verif/.build/seed-evidence-$label VERIF_LOCK_HOLDER=1 VERIF_BUILD_ONLY=1 ./check $chk > .build/seed-$label-$chk.build.log 2>&1
  git -C /repo checkout -- .
  rm -f .build/repo.lock
  jobs+=("$label $chk")
done
printf '%s\n' "${jobs[@]}" | xargs -P 3 -I{} bash -c 'set -- {}; label=$1; chk=$2; VERIF_BUILD_TAG=seed-$label VERIF_EVIDENCE_DIR=/verif/.build/seed-evidence-$label VERIF_SKIP_BUILD=1 ./check $chk > .build/seed-$label-$chk.log 2>&1; rc=$?; echo "== $label check $chk rc=$rc $(grep -c "^VIOLATION" .build/seed-$label-$chk.log) violations | $(grep -o "key=[^ ]*" .build/seed-$label-$chk.log | sort -u | head -4 | tr "\n" " ") | $(tail -1 .build/seed-$label-$chk.log | cut -c1-90)"'
